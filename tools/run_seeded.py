#!/venv/bin/python
"""Run checks against a seeded change WITHOUT touching /repo: a scratch worktree of /repo's HEAD gets the patch, the
checks run with VERIF_REPO/PYTHONPATH pointing at it, the worktree is removed afterwards.

    tools/run_seeded.py seeded/<id> [--checks C07,C11] [--tier quick] [--demo]
writes seeded/<id>/result.json
"""
import argparse
import json
import os
import shutil
import subprocess
import sys
import time
from pathlib import Path

VERIF = Path(__file__).resolve().parent.parent


def sh(cmd, **kw):
    return subprocess.run(cmd, capture_output=True, text=True, **kw)


def main():
    ap = argparse.ArgumentParser()
    ap.add_argument('dir')
    ap.add_argument('--checks')
    ap.add_argument('--tier', default='quick')
    ap.add_argument('--demo', action='store_true', help='also run the demonstration with and without the change')
    ap.add_argument('--no-checks', action='store_true')
    ap.add_argument('--tests', action='store_true', help='also run the repository test-suite with the change')
    ap.add_argument('--benign', action='store_true', help='the change keeps the property: every check must stay quiet')
    args = ap.parse_args()
    d = (VERIF / args.dir).resolve() if not os.path.isabs(args.dir) else Path(args.dir)
    meta = json.loads((d / 'meta.json').read_text())
    checks = (args.checks.split(',') if args.checks else meta.get('checks') or [meta['property']])
    wt = Path(f'/var/tmp/fjverif-seeded-{os.getpid()}')
    sh(['git', '-C', '/repo', 'worktree', 'prune'])
    base = meta.get('base_commit') or 'HEAD'
    r = sh(['git', '-C', '/repo', 'worktree', 'add', '--detach', str(wt), base])
    if r.returncode:
        print(r.stderr)
        return 2
    result = {'seeded': d.name, 'property': meta['property'], 'tier': args.tier, 'repo_head': sh(
        ['git', '-C', '/repo', 'rev-parse', '--short', 'HEAD']).stdout.strip(), 'base_commit': base, 'checks': {}}
    try:
        out = Path(f'/var/tmp/fjverif-seeded-out-{os.getpid()}')
        out.mkdir(exist_ok=True)
        env = dict(os.environ, VERIF_REPO=str(wt), PYTHONPATH=str(wt), VERIF_EVIDENCE_DIR=str(out / 'evidence'),
                   VERIF_REPLAY_DIR=str(out / 'replays'))
        # the demonstrations were written to run as <worktree>/seeded/<x>/demo.py
        demo_dir = wt / 'seeded' / 'x'
        demo_dir.mkdir(parents=True, exist_ok=True)
        for f in d.iterdir():
            if f.is_file() and f.name != 'result.json':
                shutil.copy(f, demo_dir / f.name)
        demo = demo_dir / 'demo.py'
        if args.demo and demo.exists():
            sh(['/venv/bin/python', 'build_fjcore.py'], cwd=wt)
            r0 = sh(['/venv/bin/python', str(demo)], cwd=wt, timeout=600)
            result['demo_clean_rc'] = r0.returncode
        r = sh(['git', '-C', str(wt), 'apply', '--exclude=seeded/*', str(d / 'patch.diff')])
        if r.returncode:
            print('patch does not apply:', r.stderr)
            result['error'] = 'patch does not apply: ' + r.stderr[-500:]
            (d / 'result.json').write_text(json.dumps(result, indent=1))
            return 2
        if (args.demo and demo.exists()) or args.tests:
            sh(['/venv/bin/python', 'build_fjcore.py'], cwd=wt)
            shutil.rmtree(wt / 'build', ignore_errors=True)
        if args.demo and demo.exists():
            r1 = sh(['/venv/bin/python', str(demo)], cwd=wt, timeout=600)
            result['demo_changed_rc'] = r1.returncode
        if args.tests:
            rt = sh(['/venv/bin/python', '-m', 'pytest', '-q', '-p', 'no:cacheprovider', '--timeout=900', '-x'], cwd=wt,
                    timeout=1800)
            result['tests_rc'] = rt.returncode
            result['tests_tail'] = rt.stdout.strip().splitlines()[-1:] if rt.stdout.strip() else []
        prev = {}
        if args.no_checks and (d / 'result.json').exists():
            prev = json.loads((d / 'result.json').read_text()).get('checks', {})
            result['checks'] = prev
            checks = []
        for c in checks:
            t = time.time()
            r = sh(['/venv/bin/python', str(VERIF / 'run_check.py'), c, '--tier', args.tier], env=env, cwd=VERIF,
                   timeout=3600)
            lines = [ln for ln in r.stdout.splitlines() if ln.startswith(('VIOLATION', 'KNOWN-FINDING', 'HARNESS', '   clause',
                                                                           '   new violation class', c + ' '))]
            result['checks'][c] = {'rc': r.returncode, 'caught': r.returncode == 1, 'wall_s': round(time.time() - t, 1),
                                   'lines': lines[:12]}
            word = {1: 'CAUGHT', 0: 'not caught'} if not args.benign else {1: 'FALSE-ALARM', 0: 'quiet'}
            print(c, 'rc', r.returncode, word.get(r.returncode, 'ERROR'), f'{time.time() - t:.0f}s')
            for ln in lines[:6]:
                print('   ', ln[:220])
            if r.returncode not in (0, 1):
                print(r.stdout[-1500:], r.stderr[-1500:])
    finally:
        sh(['git', '-C', '/repo', 'worktree', 'remove', '--force', str(wt)])
        shutil.rmtree(wt, ignore_errors=True)
        shutil.rmtree(f'/var/tmp/fjverif-seeded-out-{os.getpid()}', ignore_errors=True)
        sh(['git', '-C', '/repo', 'worktree', 'prune'])
    # regenerate evidence files from /repo itself is the caller's business; remove replays of the seeded run
    if (d / 'result.json').exists():
        try:        # keep what an earlier, fuller run recorded (demonstration and test-suite outcomes)
            prev = json.loads((d / 'result.json').read_text())
            for k in ('demo_clean_rc', 'demo_changed_rc', 'tests_rc', 'tests_tail'):
                if k not in result and k in prev:
                    result[k] = prev[k]
        except ValueError:
            pass
    (d / 'result.json').write_text(json.dumps(result, indent=1))
    return 0


if __name__ == '__main__':
    sys.exit(main())
