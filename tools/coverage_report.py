#!/venv/bin/python
"""Which lines of the anchored code do the checks execute?  (a blind-spot finder, not a check)

    tools/coverage_report.py [--cases N]
runs a slice of every check with python line coverage of /repo/flipjump and a gcov build of _fjcore.c, then prints
the unexecuted lines of the anchored files.
"""
import os
import shutil
import subprocess
import sys
from pathlib import Path

VERIF = Path(__file__).resolve().parent.parent
sys.path.insert(0, str(VERIF))


def main():
    from sim import build
    cases = sys.argv[sys.argv.index('--cases') + 1] if '--cases' in sys.argv else None
    out = Path('/var/tmp/fjverif-cov')
    shutil.rmtree(out, ignore_errors=True)
    out.mkdir()
    so = build.build_fjcore('cov')
    for f in so.parent.glob('*.gcda'):
        f.unlink()
    env = dict(os.environ, VERIF_PYCOV=str(out / '.coverage'), VERIF_GCOV=str(so), VERIF_ENGINE_VARIANT='cov',
               VERIF_EVIDENCE_DIR=str(out / 'evidence'), VERIF_REPLAY_DIR=str(out / 'replays'), GCOV_PREFIX_STRIP='0')
    plan = {'C01': 6000, 'C07': 4000, 'C18': 1200, 'C19': 4000, 'C15': 4000, 'C10': 200, 'C13': 60, 'C14': 40}
    for c, n in plan.items():
        r = subprocess.run([sys.executable, str(VERIF / 'run_check.py'), c, '--cases', cases or str(n)], env=env,
                           capture_output=True, text=True)
        print(r.stdout.strip().splitlines()[-1] if r.stdout.strip() else r.stderr[-300:])
    import coverage
    cov = coverage.Coverage(data_file=str(out / '.coverage'))
    cov.combine()
    cov.save()
    files = ['interpreter/fjm_run.py', 'fjm/fjm_reader.py', 'fjm/fjm_writer.py', 'interpreter/io_devices/device_memory.py',
             'interpreter/io_devices/ScreenIO.py', 'interpreter/io_devices/KeyboardIO.py',
             'interpreter/io_devices/pygame_window.py', 'interpreter/debugging/breakpoints.py', 'assembler/assembler.py',
             'assembler/fj_parser.py', 'assembler/preprocessor.py', 'utils/classes.py', 'utils/functions.py']
    repo = os.environ.get('VERIF_REPO', '/repo')
    for f in files:
        p = f'{repo}/flipjump/{f}'
        try:
            _, stmts, _, missing, _ = cov.analysis2(p)
        except Exception as e:
            print(f, 'n/a', e)
            continue
        print(f'{f}: {len(stmts) - len(missing)}/{len(stmts)} statements; missing lines: {missing}')
    # gcov
    r = subprocess.run(['gcov', '-o', str(so.parent), str(so.parent / '_fjcore.o')], cwd=out, capture_output=True, text=True)
    print(r.stdout.strip().splitlines()[:4])
    g = out / '_fjcore.c.gcov'
    if g.exists():
        miss = [ln.split(':', 2)[1].strip() for ln in g.read_text().splitlines() if ln.lstrip().startswith('#####')]
        print(f'_fjcore.c: {len(miss)} unexecuted lines:', ' '.join(miss))


if __name__ == '__main__':
    main()
