#!/venv/bin/python
"""writes /verif/MANIFEST.json (kept in a script so that the check table stays consistent)"""
import json
from pathlib import Path

VERIF = Path(__file__).resolve().parent.parent

NA = [
 ("C02", "the assembled image is a pure function of the source text; no clock, stream, fault, schedule or shared state enters its statement"),
 ("C03", "macro expansion is a pure syntactic transformation of the source text; splitting files changes inputs, not timing"),
 ("C04", "hex library macros are .fj code whose result is a pure function of operands; nothing to schedule or fault (the interpreter they run on is covered by C01/C07/C18)"),
 ("C05", "bit library macros: pure function of operands, as C04"),
 ("C06", "write/read round trip is a pure function of the writer call sequence; nothing is lost, reordered or interrupted in its statement (tearing and damage are C10)"),
 ("C08", "pointer/stack/call macros: pure function of program and operands, as C04"),
 ("C09", "input/print/cast macros: pure function of program and input bytes; an input that ends is an input, not a fault (EOF at machine level is C01)"),
 ("C12", "constant-expression evaluation is pure integer arithmetic over the parse tree"),
 ("C16", "the label table is a pure function of the source text and save/load is a pure encode/decode"),
 ("C17", "bit packing is a pure function of the bit sequence and the keyboard tic is a poll counter the device increments itself, so its stream is a function of (script, number of reads); device failures are C18"),
 ("C20", "the three invocation routes are deterministic functions of (sources, options) sharing no state; nothing can interleave or fail between them"),
]

CHECKS = {
 "C01": dict(engine="enginesim", category="exploration", design="5.1", timeout=(240, 2400),
   technique="deterministic simulation: seeded scripted-device runs of the three real run loops, lock-step refinement against a reference FlipJump machine at every device call; input stream closed (EOF) at an arbitrary bit",
   text="seeded exploration: every generated image/input is executed by native, fast and featured and must equal the reference machine in the device call sequence, the memory seen at every device call, cause, op count, fault address and final memory. Sampling, not proof; the quantifier over images is covered only by the geometry-biased generator",
   note="trusted: sim/fjmodel.py (validated against the repo catalogue in setup), CPython 3.12, gcc -O2 build of the working-tree _fjcore.c; bounds: <=2000 ops, images of a few hundred dense words inside the w-bit address space, plus one case in 1500 whose single contiguous run of stored words is a little longer than 2^14/2^16/2^20/2^22 words (2^23 in the thorough tier) with the executed ops lying across that size"),
 "C07": dict(engine="enginesim", category="exploration", design="5.2", timeout=(240, 2400),
   technique="deterministic simulation with a tuning-knob swarm: each seeded case is run under 8-14 storage/ring/measurement/observer configurations of the real engines and compared with the reference machine",
   text="seeded exploration of the knob space (flat window at every segment edge and executed op +-1, forced paged, failed flat allocation, ring lengths, measurement loop, observer on/off) over geometry-biased images (page edges, same cache slot, window straddles, far segments, top of the address space, the w=64 fill constant)",
   note="trusted: reference machine, gcc -O2 build; the MSVC build and 32-bit size_t are not explored"),
 "C19": dict(engine="enginesim", category="exploration", design="5.8", timeout=(300, 2400),
   technique="deterministic simulation: the device is a second party taking turns with the program - a seeded script of in-segment memory reads/writes per device call, executed in lock-step by the reference machine; the real InMemoryScreen/PcIO/KeyboardIO stack driven by generated command-stream programs and compared with a reference decoder",
   text="seeded exploration of device schedules (which call touches which in-segment address with which value) x engines x storage modes; valid and malformed screen command streams at w in {16,32,64}; 40% of the screen cases re-use the device OBJECT of an earlier run (usually of another memory width) that ended on a command boundary",
   note="trusted: reference machine and reference screen decoder; device writes outside segments are out of scope by the statement; pygame is not installed, PcIO is assembled from its real headless components"),
 "C10": dict(engine="storagesim", category="fault_enumeration", design="5.4", timeout=(300, 2400),
   technique="deterministic simulation with fault injection on a simulated disk: the real writer's byte stream is torn at every byte (crash / full disk / kill), blocks are lost, every header/table field is corrupted from a value table, payload bits are flipped; the real reader opens every variant",
   text="crash points are enumerated completely per file (every strict prefix up to 4 KiB), every single-field corruption from a value table, seeded block loss and payload damage, stale tails after the file (1 byte..1.1 MB) and a CPU-time scaling probe (n vs 4n filler bytes) and big compressible payloads (>1 MiB decoded); files (writer call sequences and real assembler outputs) are sampled",
   note="trusted: the independent struct-level parser in checks/c10.py decides the named inconsistencies; a torn write leaves a prefix; undetectable (mutually consistent) damage is judged for totality only; the prefix enumeration reads from the in-memory disk, every other variant from a real file"),
 "C13": dict(engine="historysim", category="exploration", design="5.5", timeout=(400, 2700),
   technique="deterministic simulation of call histories with fault injection: seeded histories of assemble calls in one process (fresh fork per history) with failing inputs, interrupts made pending at a chosen bytecode instruction, I/O errors at the k-th file operation and stl mtime jumps; every successful call is compared byte-for-byte with a fresh interpreter (other hash seed, other directory)",
   text="seeded exploration of histories (2-10 operations; the last one collides with an earlier one: same program other width / other warning mode / same key after a failure or an interrupted call); every 4th history runs in library mode (a private cacheable library whose macros take rep counts from the program's labels and constants, library files saved while a call is parsing or between calls); the parser's process-global state, the prefix cache and the recursion limit are never reset inside a history",
   note="trusted: the fresh-interpreter result is the function value (memoised per configuration and source-tree hash); corpus of 12 valid and 11 failing programs"),
 "C14": dict(engine="storagesim", category="fault_enumeration", design="5.6", timeout=(300, 2400),
   technique="deterministic simulation with fault injection: the output files live in a real directory and are opened through numbered fault-injecting proxies; every file operation of a recorded assemble() call fails in turn (OSError of several errnos, short write + ENOSPC), the process dies after every byte of the .fjm, the progress-message stream fails (EPIPE) at every write, an interrupt becomes pending at seeded instructions of the create-binary stage",
   text="ONLY the crash-consistency clause of C14 is claimed (a failed assembly never leaves behind an output file that loads); fault plans are enumerated per sampled call. The clauses 'specific exception for every source text' and 'never hangs' quantify over inputs only and are not claimed",
   note="trusted: 'loads' = Reader + assert_runnable; every returned write is durable (most favourable disk); exception types under environment faults are not judged"),
 "C11": dict(engine="enginesim", category="exploration", design="5.3", timeout=(400, 2700),
   technique="deterministic simulation with fault injection on an ASan+UBSan build of the working-tree _fjcore.c: seeded knob swarm, adversarial byte-wise images, Memory-API operation sequences, device accesses at any 64-bit address, failing callbacks, and the k-th allocation failing (alloc shim), every death attributed to one case by re-running it alone",
   text="seeded exploration; the sanitizers are the invariant monitor (out-of-bounds, use-after-free, UB such as shifts and signed overflow), refcounts of the callbacks are compared before/after, and allocation-failure indices are enumerated per sampled run",
   note="trusted: gcc ASan/UBSan instrumentation at -O1 is representative of the -O2 build for memory errors; leaks, MSVC and 32-bit size_t are not covered"),
 "C15": dict(engine="debugsim", category="exploration", design="5.9", timeout=(300, 2400),
   technique="deterministic simulation of a two-party schedule: a seeded adaptive user takes turns with the featured loop at the prompt seam; the reference machine is advanced by the debugger protocol (breakpoints, armed step count, continue-all), which fixes the exact op indices of every pause; reads are decoded independently from the model memory",
   text="seeded exploration of command histories (step, skip N, continue, continue-all, reads of every documented form, help, unknown, empty, quit, EOF, Ctrl-C at the prompt) x breakpoint sets (address, label, substring) x programs, one session in eight armed before the run through the handler's own command interface (skip N / step at op 0, half of them with no breakpoint at all) and handed to fjm_run.run; the session must pause exactly at the predicted (count, ip) points, show true values, leave memory untouched and end like the undebugged run on all three engines",
   note="trusted: reference machine; documented variable layout; a pause on an op whose flip word is unreadable may end with that memory error (named relaxation); <=300 ops and <=40 prompts per session"),
 "C18": dict(engine="enginesim", category="fault_enumeration", design="5.7", timeout=(300, 2400),
   technique="deterministic simulation with fault injection: the scripted device fails at every IO call index of each sampled run (library IO error, EOF, foreign exception, KeyboardInterrupt, BaseException, bad __bool__), plus pending-SIGINT injection at chosen bytecode instructions / IO calls; oracle = reference machine stopped at the micro-step",
   text="per sampled program (generated images, cat-like IO loops, real stl programs) the failing call index is enumerated completely (<=48 calls) with two fault kinds per index (library IO errors, EOF on either side, foreign exceptions incl. the OSError family, KeyboardInterrupt, BaseException, bad truth values) on native (flat/paged/ring/measured), fast and featured; plus the interrupt family (pending SIGINT at every instruction of ~2 ops of the python loops, at IO calls for all engines incl. the native signal poll) and window-close through the real PcIO/KeyboardIO/InteractiveScreen stack",
   note="trusted: reference machine; synchronous delivery of callback exceptions; async interrupts injected through CPython's own pending-signal mechanism (PyErr_SetInterrupt from a C monitoring callback), real OS signal timing is not explored"),
}


def main():
    checks = []
    for cid, c in CHECKS.items():
        q, t = c["timeout"]
        checks.append({
            "property_id": cid,
            "quick_cmd": f"cd /verif && timeout {q} /venv/bin/python run_check.py {cid} --tier quick",
            "thorough_cmd": f"cd /verif && timeout {t} /venv/bin/python run_check.py {cid} --tier thorough",
            "evidence_file": f"/verif/evidence/{cid}.json",
            "replay_cmd_template": f"cd /verif && timeout 300 /venv/bin/python run_check.py {cid} --replay {{path}}",
            "engine": c["engine"],
            "level_claimed": {"category": c["category"], "text": c["text"], "design_ref": f"DESIGN.md section {c['design']}"},
            "level_note": c["note"],
            "technique": c["technique"],
        })
    claimed = set(CHECKS)
    pending = [p for p in ("C10", "C11", "C13", "C14", "C15", "C19") if p not in claimed]
    na = [{"property_id": p, "reason": r} for p, r in NA]
    for p in pending:
        na.append({"property_id": p, "reason": "applicable (see DESIGN.md section 5) but its check is not registered yet in this commit, so nothing is claimed for it here"})
    man = {
        "version": 1,
        "setup_cmd": "cd /verif && sh setup.sh",
        "hooks": {
            "guard": "FLIPJUMP_VERIF",
            "enable": "no source hook exists: every seam is taken from outside /repo (IODevice interface, module-level name injection for open/time/input, sys.monitoring, os.environ, a private rebuild of the working-tree _fjcore.c incl. an ASan/UBSan build and an -include alloc_shim.h build). FLIPJUMP_VERIF is reserved for a future guarded hook and is read by nothing today.",
            "baseline_off_cmd": "cd /repo && /venv/bin/python build_fjcore.py >/dev/null 2>&1 ; rm -rf /repo/build ; /venv/bin/python -m pytest -ra -q -p no:cacheprovider --timeout=900 --continue-on-collection-errors",
            "source_commits": [],
            "add_only": True,
        },
        "engines": [
            {"name": "enginesim", "path": "sim/", "serves_properties": ["C01", "C07", "C11", "C18", "C19"], "kind_free_text": "deterministic simulation: the three real run loops driven by a seeded scripted device (values, EOF, exceptions, interrupts, reads/writes of program memory), reference FlipJump machine as oracle, knob swarm, ASan/UBSan + allocation-failure builds of the working-tree _fjcore.c"},
            {"name": "storagesim", "path": "sim/", "serves_properties": ["C10", "C14"], "kind_free_text": "real writer/assembler -> in-memory disk with crash at every byte, lost blocks, field corruption, OSError at the k-th file operation -> real reader"},
            {"name": "historysim", "path": "sim/", "serves_properties": ["C13"], "kind_free_text": "seeded histories of assemble/run calls in one process with failures, interrupts, I/O faults and mtime jumps; every output compared with a fresh interpreter"},
            {"name": "debugsim", "path": "sim/", "serves_properties": ["C15"], "kind_free_text": "simulated debugger user taking turns with the featured loop; pauses observed at the prompt seam, reference machine as oracle"},
        ],
        "checks": checks,
        "notes": "Technique: deterministic simulation with fault injection (DESIGN.md). Genuine defects found and repaired are listed in known_findings.json ('fixed:' lines) and DESIGN.md section 7. exit codes: 0 held, 1 VIOLATION, 2 harness error/inadequate.",
        "not_applicable": na,
    }
    (VERIF / "MANIFEST.json").write_text(json.dumps(man, indent=1) + "\n")


if __name__ == "__main__":
    main()
