"""Screen workloads for C19: a reference decoder written from the documented command layout, a builder of
straight-line FlipJump programs that emit a command stream bit by bit (with the framebuffer and palette as
packed bytes in data ops and bit pokes between frames), and recording wrappers around the REAL devices.
"""
CMD_INIT, CMD_PALETTE, CMD_UPDATE, CMD_RECT, CMD_RAW = 1, 2, 3, 4, 5


class RefScreenError(Exception):
    pass


class RefScreen:
    """the documented screen: command stream in, frames out. `mem` has read_word(word_address)."""

    def __init__(self, w, mem):
        self.w = w
        self.ww = w.bit_length() - 1
        self.mem = mem
        self.width = self.height = 0
        self.bpp = 8
        self.palette_size = 0
        self.palette = []
        self.pixels = []
        self.frames = []
        self.buf = []
        self.cur = 0
        self.nbits = 0

    def write_bit(self, bit):
        self.cur |= (1 if bit else 0) << self.nbits
        self.nbits += 1
        if self.nbits == 8:
            b, self.cur, self.nbits = self.cur, 0, 0
            self._byte(b)

    def _len(self, cmd):
        ab = self.w // 8
        if cmd == CMD_INIT:
            return 8
        if cmd in (CMD_PALETTE, CMD_UPDATE):
            return 1 + ab
        if cmd == CMD_RECT:
            return 9 + ab
        if cmd == CMD_RAW:
            if self.width == 0 or self.height == 0:
                raise RefScreenError('raw before init')
            return 1 + self.width * self.height
        raise RefScreenError('unknown command')

    def _byte(self, b):
        self.buf.append(b)
        if len(self.buf) >= self._len(self.buf[0]):
            cmd, payload = self.buf[0], self.buf[1:]
            self.buf = []
            self._exec(cmd, payload)

    def _packed(self, addr, count):
        if self.w < 16 and count > 0:
            raise ValueError('packed bytes need w >= 16')
        dw = 2 * self.w
        off = self.w.bit_length()
        return [(self.mem.read_word(((addr + k * dw) >> self.ww) + 1) >> off) & 0xFF for k in range(count)]

    @staticmethod
    def _u16(p, o):
        return p[o] | (p[o + 1] << 8)

    def _addr(self, p, o):
        return sum(p[o + i] << (8 * i) for i in range(self.w // 8))

    def _exec(self, cmd, p):
        if cmd == CMD_INIT:
            width, height, bpp, psize = self._u16(p, 0), self._u16(p, 2), p[4], self._u16(p, 5)
            if bpp not in (4, 8):
                raise RefScreenError('bad bpp')
            if width == 0 or height == 0:
                raise RefScreenError('zero size')
            self.width, self.height, self.bpp, self.palette_size = width, height, bpp, psize
            self.palette = [(0, 0, 0)] * psize
            self.pixels = [0] * (width * height)
        elif cmd == CMD_PALETTE:
            rgb = self._packed(self._addr(p, 0), 3 * self.palette_size)
            self.palette = [(rgb[3 * k], rgb[3 * k + 1], rgb[3 * k + 2]) for k in range(self.palette_size)]
        elif cmd == CMD_UPDATE:
            if self.width == 0:
                raise RefScreenError('update before init')
            mask = (1 << self.bpp) - 1
            self.pixels = [v & mask for v in self._packed(self._addr(p, 0), self.width * self.height)]
            self._present()
        elif cmd == CMD_RECT:
            if self.width == 0:
                raise RefScreenError('rect before init')
            x, y, rw, rh = self._u16(p, 0), self._u16(p, 2), self._u16(p, 4), self._u16(p, 6)
            base = self._addr(p, 8)
            if x + rw > self.width or y + rh > self.height:
                raise RefScreenError('rect outside')
            mask = (1 << self.bpp) - 1
            dw = 2 * self.w
            for row in range(rh):
                first = (y + row) * self.width + x
                line = self._packed(base + first * dw, rw)
                for col in range(rw):
                    self.pixels[(y + row) * self.width + x + col] = line[col] & mask
            self._present()
        elif cmd == CMD_RAW:
            mask = (1 << self.bpp) - 1
            self.pixels = [v & mask for v in p]
            self._present()

    def _present(self):
        black = (0, 0, 0)
        rgb = tuple(self.palette[i] if i < len(self.palette) else black for i in self.pixels)
        self.frames.append((tuple(self.pixels), tuple(self.palette), rgb))


# ---------------------------------------------------------------------------------- program builder

def build_screen_case(rng, w):
    """a straight-line program emitting a screen command stream; returns a case (one compact segment)"""
    ww = w.bit_length() - 1
    dw = 2 * w
    ab = w // 8
    dbit = w.bit_length()
    sw, sh = rng.choice([(1, 1), (2, 2), (3, 2), (4, 4), (8, 8), (5, 3)])
    bpp = rng.choice([4, 8, 8])
    psize = rng.choice([0, 1, 2, 4, 16, 16])
    malformed = rng.random() < 0.35

    # ---- plan the stream as a list of items: ('bytes', [...]) | ('poke', pixel index k, bit b) | ('ppoke', k, b)
    items = []

    def addr_bytes(a):
        return [(a >> (8 * i)) & 0xFF for i in range(ab)]

    FB, PAL = 'FB', 'PAL'     # placeholders resolved after layout
    stream = []
    stream.append(('cmd', [CMD_INIT, sw & 255, sw >> 8, sh & 255, sh >> 8, bpp, psize & 255, psize >> 8]))
    nfr = rng.randint(1, 5)
    reinit_at = rng.randrange(1, nfr + 1) if rng.random() < 0.35 else None
    max_pixels = sw * sh
    for fi in range(nfr):
        if reinit_at == fi:
            # a mode change in mid-stream: later commands must be framed and decoded with the NEW geometry
            sw, sh = rng.choice([(1, 1), (2, 1), (2, 2), (3, 2), (4, 4), (4, 2), (3, 3)])
            bpp = rng.choice([4, 8])
            max_pixels = max(max_pixels, sw * sh)
            stream.append(('cmd', [CMD_INIT, sw & 255, sw >> 8, sh & 255, sh >> 8, bpp, psize & 255, psize >> 8]))
        r = rng.random()
        if r < 0.25:
            stream.append(('cmdaddr', [CMD_PALETTE], PAL))
        if rng.random() < 0.7:
            for _ in range(rng.randint(1, 4)):
                stream.append(('poke', rng.randrange(sw * sh), rng.randrange(8)))
        if rng.random() < 0.3 and psize:
            stream.append(('ppoke', rng.randrange(3 * psize), rng.randrange(8)))
        r = rng.random()
        if r < 0.45:
            stream.append(('cmdaddr', [CMD_UPDATE], FB))
        elif r < 0.8:
            rw_, rh_ = rng.randint(1, sw), rng.randint(1, sh)
            x, y = rng.randint(0, sw - rw_), rng.randint(0, sh - rh_)
            stream.append(('cmdaddr', [CMD_RECT, x, 0, y, 0, rw_, 0, rh_, 0], FB))
        elif sw * sh <= 16:
            stream.append(('cmd', [CMD_RAW] + [rng.randrange(256) for _ in range(sw * sh)]))
        else:
            stream.append(('cmdaddr', [CMD_UPDATE], FB))
    if malformed:
        kind = rng.choice(['unknown', 'badbpp', 'zerosize', 'rectout', 'noinit_update', 'noinit_raw', 'truncated',
                           'noinit_rect', 'far_address', 'rect_huge', 'rect_huge', 'init_huge'])
        pos = rng.randrange(1, len(stream) + 1)
        if kind == 'unknown':
            stream.insert(pos, ('cmd', [rng.choice([0, 6, 7, 0x80, 0xFF])]))
        elif kind == 'badbpp':
            stream.insert(pos, ('cmd', [CMD_INIT, 2, 0, 2, 0, rng.choice([0, 1, 3, 5, 16]), 0, 0]))
        elif kind == 'zerosize':
            stream.insert(pos, ('cmd', [CMD_INIT, rng.choice([0, 2]), 0, 0, 0, 8, 0, 0]))
        elif kind == 'rectout':
            stream.insert(pos, ('cmdaddr', [CMD_RECT, sw, 0, 0, 0, 1, 0, 1, 0], FB))
        elif kind == 'rect_huge':
            # 16-bit fields with the top bit set (0x8000..0xFFFF): far outside any screen
            flds = [0, 0, 1, 1]
            flds[rng.randrange(4)] = rng.choice([0x8000, 0xFFFF, 0xFFFE, 0x8001, 0xC000])
            payload = []
            for v in flds:
                payload += [v & 255, v >> 8]
            stream.insert(pos, ('cmdaddr', [CMD_RECT] + payload, FB))
        elif kind == 'init_huge':
            # a huge but legal geometry followed by an update would read far past the segment: words read 0
            # (kept inside the w-bit address space: at w=16 a 32768-pixel row would run past word 2^16, where the
            #  python adapter's address mask wraps and the native one does not - not memory at all, out of scope)
            stream.insert(pos, ('cmd', [CMD_INIT, 0, rng.choice([1, 0x80]) if w >= 32 else 1, 1, 0, 8, 0, 0]))
        elif kind == 'noinit_update':
            stream.insert(0, ('cmdaddr', [CMD_UPDATE], FB))
        elif kind == 'noinit_rect':
            stream.insert(0, ('cmdaddr', [CMD_RECT, 0, 0, 0, 0, 1, 0, 1, 0], FB))
        elif kind == 'noinit_raw':
            stream.insert(0, ('cmd', [CMD_RAW, 1, 2, 3]))
        elif kind == 'truncated':
            stream.append(('cmd', [CMD_RECT, 0, 0]))
        elif kind == 'far_address':
            stream.insert(pos, ('cmdaddr', [CMD_UPDATE], 'FAR'))
    # ---- count ops to lay out code, then data
    nops = 1   # final halt op
    for it in stream:
        if it[0] == 'cmd':
            nops += 8 * len(it[1])
        elif it[0] == 'cmdaddr':
            nops += 8 * (len(it[1]) + ab)
        else:
            nops += 1
    # op k lives at slot(k): slot 0, then slots 2.. (slot 1 = words 2,3 = the IO cell, left alone)
    def slot(k):
        return 0 if k == 0 else (k + 1)
    code_slots = nops + 1
    fb_slot = code_slots + rng.choice([0, 1, 3])
    pal_slot = fb_slot + max_pixels + rng.choice([0, 2])
    end_slot = pal_slot + 3 * max(psize, 1) + 2
    nwords = 2 * end_slot
    if nwords > (1 << (w - ww)) or nwords > 6000:
        return None
    fb_addr = fb_slot * dw
    pal_addr = pal_slot * dw
    far_addr = (end_slot + 50) * dw       # outside the segment: packed bytes read 0
    words = [0] * nwords
    fb = [rng.randrange(256) for _ in range(max_pixels)]
    pal = [rng.randrange(256) for _ in range(3 * psize)]
    for k, v in enumerate(fb):
        words[2 * (fb_slot + k) + 1] = (v << dbit) & ((1 << w) - 1)
    for k, v in enumerate(pal):
        words[2 * (pal_slot + k) + 1] = (v << dbit) & ((1 << w) - 1)
    # ---- emit ops
    ops = []
    for it in stream:
        if it[0] in ('cmd', 'cmdaddr'):
            bs = list(it[1])
            if it[0] == 'cmdaddr':
                a = {FB: fb_addr, PAL: pal_addr, 'FAR': far_addr}[it[2]]
                bs += addr_bytes(a)
            for b in bs:
                for i in range(8):
                    ops.append(dw + ((b >> i) & 1))
        elif it[0] == 'poke':
            ops.append((fb_slot + it[1]) * dw + w + dbit + it[2])
        elif it[0] == 'ppoke':
            ops.append((pal_slot + it[1]) * dw + w + dbit + it[2])
    scratch_bit = (end_slot - 1) * dw + 5
    ops.append(scratch_bit)      # the halt op flips a scratch bit
    assert len(ops) == nops
    for k, f in enumerate(ops):
        a = slot(k) * 2
        words[a] = f
        words[a + 1] = (slot(k + 1) * dw) if k + 1 < len(ops) else slot(k) * dw
    case = {'w': w, 'segments': [{'start': 0, 'length': nwords, 'data': words}], 'version': rng.choice([0, 1, 2, 3]),
            'lzma_preset': 0, 'input_bits': [], 'script': {}, 'fault': None, 'probe_words': [],
            'kind': 'screen', 'screen': {'size': [sw, sh], 'bpp': bpp, 'psize': psize, 'malformed': malformed,
                                        'device': rng.choice(['screen', 'screen', 'pc']), 'png': rng.random() < 0.2,
                                        'fb_words': [2 * fb_slot, 2 * (fb_slot + max_pixels)], 'pal_words': [2 * pal_slot, 2 * (pal_slot + 3 * max(psize, 1))]},
            'tags': ['screen']}
    return case


# ---------------------------------------------------------------------------------- recording real devices

class _FakeTime:
    def __init__(self):
        self.t = 1_000_000_000

    def time_ns(self):
        self.t += 16_666_667
        return self.t

    def time(self):
        return self.time_ns() / 1e9


def decode_png_rgb(data):
    """decode the minimal 8-bit RGB PNGs the screen device writes -> (width, height, [(r,g,b), ...])"""
    import struct
    import zlib
    assert data[:8] == b'\x89PNG\r\n\x1a\n'
    pos = 8
    width = height = None
    idat = b''
    while pos < len(data):
        n, typ = struct.unpack('>I4s', data[pos:pos + 8])
        body = data[pos + 8:pos + 8 + n]
        crc = struct.unpack('>I', data[pos + 8 + n:pos + 12 + n])[0]
        assert crc == (zlib.crc32(typ + body) & 0xFFFFFFFF), 'bad chunk crc'
        if typ == b'IHDR':
            width, height, depth, ctype = struct.unpack('>IIBB', body[:10])
            assert (depth, ctype) == (8, 2)
        elif typ == b'IDAT':
            idat += body
        pos += 12 + n
    raw = zlib.decompress(idat)
    px = []
    stride = 1 + 3 * width
    for y in range(height):
        row = raw[y * stride:(y + 1) * stride]
        assert row[0] == 0
        px += [tuple(row[1 + 3 * x:4 + 3 * x]) for x in range(width)]
    return width, height, px


def make_real_screen_device(kind, frames_dir=None):
    """the REAL InMemoryScreen (optionally inside the real PcIO with a real KeyboardIO over a scripted source),
    with the present hook recording frames and the clock stubbed"""
    from flipjump.interpreter.io_devices import ScreenIO
    from flipjump.interpreter.io_devices.ScreenIO import InMemoryScreen
    ScreenIO.time = _FakeTime()

    class RecordingScreen(InMemoryScreen):
        def __init__(self):
            super().__init__(frames_dir=frames_dir)
            self.frames = []
            self.bits = []

        def write_bit(self, bit):
            self.bits.append(1 if bit else 0)
            super().write_bit(bit)

        def _present(self):
            super()._present()
            self.frames.append((tuple(self.pixel_indices), tuple(tuple(c) for c in self.palette),
                                tuple(tuple(c) for c in self.last_frame_rgb)))

    scr = RecordingScreen()
    if kind == 'pc':
        from flipjump.interpreter.io_devices.pygame_window import PcIO
        from flipjump.interpreter.io_devices.KeyboardIO import KeyboardIO, ScriptedKeyEventSource
        dev = PcIO(scr, KeyboardIO(ScriptedKeyEventSource([])))
        dev.fired = None
        return dev, scr
    scr.fired = None
    return scr, scr
