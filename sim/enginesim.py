"""enginesim: run one case on the reference machine and on real engine configurations, compare.

Shared by C01, C07, C11, C18, C19.
"""
import copy
import os

from sim import case as C
from sim import gen, fjmodel, kernel

MODEL_CAP = 2000
CANDIDATE_TIMEOUT_S = 10


def cfg_name(cfg):
    parts = [cfg['engine']]
    for k, v in sorted((cfg.get('env') or {}).items()):
        parts.append(k.replace('FLIPJUMP_', '').lower() + '=' + str(v))
    if cfg.get('flat_max_words') is not None:
        parts.append(f"fmw={cfg['flat_max_words']}")
    if cfg.get('last_ops') is not None:
        parts.append(f"ring={cfg['last_ops']}")
    if cfg.get('trace'):
        parts.append('trace')
    if cfg.get('via'):
        parts.append('via=' + cfg['via'])
    if cfg.get('probe'):
        parts.append(f"probe={cfg['probe']}")
    return ','.join(parts)


def cfg_class(cfg):
    """coarse class of a configuration (used in violation signatures)"""
    if cfg is None:
        return None
    eng = cfg['engine']
    if eng != 'native':
        return eng
    env = cfg.get('env') or {}
    if env.get('FLIPJUMP_MEASURE_SPECULATION') == '1' and not cfg.get('last_ops'):
        return 'native-measured'
    if env.get('FLIPJUMP_NO_FLAT') == '1' or env.get('FLIPJUMP_TEST_FLAT_ALLOC_FAIL') == '1':
        return 'native-paged' + ('-ring' if cfg.get('last_ops') else '')
    return 'native-flat' + ('-ring' if cfg.get('last_ops') else '')


_img_counter = [0]


def image_path():
    _img_counter[0] += 1
    return C.scratch_dir() / f'img{_img_counter[0] % 4}.fjm'


def pre_run(rng, case, extra_probe=8, cap=MODEL_CAP):
    """model pre-run: decides probe words; returns the machine or None when the case does not terminate in cap"""
    case['probe_words'] = []
    obs, m = C.run_model(case, probe_mode='off', max_ops=cap, trace_limit=64)
    if obs['outcome'][0] == 'cap':
        return None, obs
    case['probe_words'] = gen.probe_words_for(rng, case, m.touched, extra_probe)
    return m, obs


def evaluate(case, fields=('outcome', 'ops', 'last_ops', 'log', 'final'), path=None, stop_at_first=True,
             model_cap=MODEL_CAP):
    """returns (violations, info). one model run per distinct (last_ops, probe) pair, one engine run per config."""
    if path is None:
        path = image_path()
        C.write_image(case, path)
    violations = []
    info = {'steps': 0, 'storage_modes': set(), 'model': None, 'expected': {}}
    model_cache = {}
    for cfg in case['configs']:
        probe = cfg.get('probe', 'touched')
        key = (cfg.get('last_ops'), probe)
        if key not in model_cache:
            model_cache[key] = C.run_model(case, last_ops=cfg.get('last_ops'), probe_mode=probe, max_ops=model_cap)
        exp, m = model_cache[key]
        info['model'] = m
        info['expected'][cfg_name(cfg)] = exp
        if exp['outcome'][0] == 'cap':
            continue
        obs, dev = C.run_engine(case, cfg, path, probe_mode=probe)
        info['steps'] += (obs['ops'] or 0)
        if obs.get('storage_mode'):
            info['storage_modes'].add(obs['storage_mode'])
        diff = C.compare(exp, obs, fields)
        if diff is not None:
            violations.append({'clause': diff[0], 'config': cfg, 'config_name': cfg_name(cfg), 'expected': diff[1],
                               'observed': diff[2], 'model_micro': exp.get('micro'),
                               'exp_outcome': C._j(exp['outcome']), 'obs_outcome': C._j(obs['outcome'])})
            if stop_at_first:
                break
    return violations, info


# ---------------------------------------------------------------------------------- signature

def signature(case, violation):
    """structural features of a (minimised) violating case, for known-finding matching"""
    cfg = violation.get('config')
    w = case['w']
    sig = {'clause': violation.get('clause'), 'config_class': cfg_class(cfg), 'w': w}
    try:
        probe_case = dict(case, probe_words=[], fault=case.get('fault'))
        cap = case.get('model_cap', MODEL_CAP)
        obs, m = C.run_model(probe_case, probe_mode='off', trace_limit=cap, max_ops=cap)
        top = 1 << w
        sig['op_reaches_top_of_address_space'] = any(ip + 2 * w >= top for ip in m.ip_trace) or \
            (m.ip + 2 * w >= top)
        # last op started by the model
        ip = m.ip
        ww = w.bit_length() - 1
        segs = [(s['start'], s['start'] + s['length']) for s in case['segments']]
        a = ip >> ww
        sig['last_op_on_last_word_of_segment'] = any(a == e - 1 for s, e in segs) and (ip & (w - 1)) == 0
        sig['model_outcome'] = obs['outcome'][1] if obs['outcome'][0] == 'term' else obs['outcome'][0]
        sig['model_micro'] = obs['micro']
    except Exception as e:  # the signature must never hide a violation
        sig['signature_error'] = repr(e)
    return sig


# ---------------------------------------------------------------------------------- minimiser

def _still_fails(cand, want, fields, model_cap):
    try:
        C_path = image_path()
        C.write_image(cand, C_path)
    except C.WriterRefused:
        return None
    except Exception:
        return None
    # a reduced candidate may send a defective engine into an endless loop: every candidate runs under its own wall
    # limit, and one that exceeds it simply does not count as "still failing the same way"
    import signal
    import time
    t0 = time.monotonic()
    outer = signal.setitimer(signal.ITIMER_REAL, CANDIDATE_TIMEOUT_S)
    try:
        vs, _ = evaluate(cand, fields, path=C_path, model_cap=model_cap)
    except kernel.WatchdogTimeout:
        return None
    except Exception:
        return None
    finally:
        # (an enclosing limit keeps counting: re-arm what is left of it)
        signal.setitimer(signal.ITIMER_REAL, max(0.01, outer[0] - (time.monotonic() - t0)) if outer[0] else 0)
    for v in vs:
        if (v['clause'], cfg_class(v['config'])) == want:
            return v
    return None


def minimise(case, violation, fields=('outcome', 'ops', 'last_ops', 'log', 'final'), budget=400, model_cap=MODEL_CAP):
    """greedy delta-debugging over the lists of the case; keeps the same (clause, config class)."""
    want = (violation['clause'], cfg_class(violation.get('config')))
    best = copy.deepcopy(case)
    best['configs'] = [violation['config']] if violation.get('config') else best['configs'][:1]
    bestv = _still_fails(best, want, fields, model_cap)
    if bestv is None:
        return case, violation     # (flaky under reduction of configs: keep the original)
    tries = [0]

    def attempt(cand):
        nonlocal best, bestv
        if tries[0] >= budget:
            return False
        tries[0] += 1
        v = _still_fails(cand, want, fields, model_cap)
        if v is not None:
            best, bestv = cand, v
            return True
        return False

    changed = True
    while changed and tries[0] < budget:
        changed = False
        # simplify the configuration
        cfg = best['configs'][0]
        for key in ('probe',):
            if cfg.get(key) not in (None, 'off'):
                c2 = copy.deepcopy(best)
                c2['configs'][0][key] = 'off'
                changed |= attempt(c2)
        if best.get('probe_words'):
            c2 = copy.deepcopy(best)
            c2['probe_words'] = []
            changed |= attempt(c2)
        if best.get('version', 1) != 1:
            c2 = copy.deepcopy(best)
            c2['version'] = 1
            changed |= attempt(c2)
        # drop script entries
        for k in sorted((best.get('script') or {}).keys(), key=lambda x: -1 if x == 'attach' else int(x), reverse=True):
            c2 = copy.deepcopy(best)
            del c2['script'][k]
            if attempt(c2):
                changed = True
                continue
            acts = best['script'].get(k) or []
            for ai in range(len(acts) - 1, -1, -1):
                c2 = copy.deepcopy(best)
                del c2['script'][k][ai]
                changed |= attempt(c2)
        # input
        bits = best['input_bits']
        if bits:
            for cut in (0, len(bits) // 2, len(bits) - 1):
                c2 = copy.deepcopy(best)
                c2['input_bits'] = bits[:cut]
                if attempt(c2):
                    changed = True
                    break
            if any(best['input_bits']):
                c2 = copy.deepcopy(best)
                c2['input_bits'] = [0] * len(best['input_bits'])
                changed |= attempt(c2)
        # segments: drop, then shrink data
        for si in range(len(best['segments']) - 1, 0, -1):
            c2 = copy.deepcopy(best)
            del c2['segments'][si]
            changed |= attempt(c2)
        for si in range(len(best['segments'])):
            seg = best['segments'][si]
            n = len(seg['data'])
            for keep in (0, 2, n // 2 & ~1, n - 2):
                if 0 <= keep < len(best['segments'][si]['data']):
                    c2 = copy.deepcopy(best)
                    c2['segments'][si]['data'] = c2['segments'][si]['data'][:keep]
                    if attempt(c2):
                        changed = True
                        break
            seg = best['segments'][si]
            if seg['length'] > max(2, len(seg['data'])):
                c2 = copy.deepcopy(best)
                c2['segments'][si]['length'] = max(2, len(seg['data']))
                changed |= attempt(c2)
        # zero words
        for si in range(len(best['segments'])):
            data = best['segments'][si]['data']
            if len(data) > 64:
                continue
            for wi in range(len(data)):
                if best['segments'][si]['data'][wi] != 0:
                    c2 = copy.deepcopy(best)
                    c2['segments'][si]['data'][wi] = 0
                    changed |= attempt(c2)
    return best, bestv
