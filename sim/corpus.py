"""small FlipJump source corpus for the assembly-history simulators (C13)"""

OK = {
    # name: (use_stl, [file texts])
    'n_basic': (False, ["a:\n  ;b\nb:\n  a+1;c\nc:\n  ;c\n"]),
    'n_macro': (False, ["def startup @ code_start > IO {\n  ;code_start\n IO:\n  ;0\n code_start:\n}\n"
                        "def output_bit bit < IO {\n  IO + bit;\n}\n"
                        "def output ascii {\n  rep(8, i) output_bit ((ascii>>i)&1)\n}\n"
                        "def end_loop @ loop_label {\n loop_label:\n  ;loop_label\n}\n"
                        "startup\noutput 'H'\noutput 'i'\nend_loop\n"]),
    'n_ns': (False, ["ns foo {\n  def m x {\n    ;x\n  }\n  ns bar {\n    def k @ l {\n      ;l\n     l:\n    }\n  }\n}\n"
                     "foo.m end\nfoo.bar.k\nend:\n  ;end\n"]),
    'n_wflip': (False, ["  wflip a, 5, b\na:\n  ;0\nb:\n  wflip a, 0x11\n  ;b\n"]),
    'n_padseg': (False, ["  ;x\n  pad 4\nx:\n  ;y\nsegment 0x800\ny:\n  ;y\n  reserve 2*w\n"]),
    'n_consts': (False, ["X = 3\nY = X*2+#X\n  (Y<<2)*0;l\nl:\n  ;l+(X>2?0:2*w)\n"]),
    'n_two_files': (False, ["def halt @ h {\n h:\n  ;h\n}\ndef nop {\n  ;$+2*w\n}\n", "  nop\n  nop\n  halt\n"]),
    's_hello': (True, ["stl.startup\nstl.output \"Hi\"\nstl.loop\n"]),
    's_bit': (True, ["stl.startup\nbit.not x\nstl.output '0'+1\nstl.loop\nx:\n  bit.bit 0\n"]),
    's_hex': (True, ["stl.startup\nhex.xor x, y\nhex.print_as_digit x, 0\nstl.loop\nx: hex.hex 3\ny: hex.hex 5\n"]),
    's_rep': (True, ["stl.startup\nrep(5, i) bit.exact_not x+i*dw\nstl.loop\nx:\n  bit.vec 5, 0\n"]),
    's_two_files': (True, ["def twice x {\n  bit.not x\n  bit.not x\n}\n", "stl.startup\ntwice v\nstl.loop\nv: bit.bit 1\n"]),
}

FAIL = {
    'f_syntax': (False, [";;\n;\n"]),
    'f_lex': (False, [";0 `\n"]),
    'f_unknown_macro': (False, ["foo 1\n;0\n"]),
    'f_dup_label': (False, ["a:\na:\n;0\n"]),
    'f_unresolved': (False, [";nolabel\n"]),
    'f_overlap': (False, [";0\nsegment 0\n;0\n"]),
    'f_dup_macro': (False, ["def m {\n ;0\n}\ndef m {\n ;0\n}\nm\n"]),
    'f_recursion': (False, ["def m {\n m\n}\nm\n"]),
    'f_args': (False, ["def m x {\n ;x\n}\nm\n"]),
    'f_stl_unknown': (True, ["stl.startup\nstl.no_such_macro 1\nstl.loop\n"]),
    'f_stl_syntax': (True, ["stl.startup\n;;\n"]),
}


# a private "standard library" used by C13's library mode: the history process points the parser's cacheable
# directory at a directory holding these files, so they take the place of the packaged stl in the prefix cache and
# exercise constructs the packaged stl does not contain (rep counts from global labels, constants, nested reps).
LIB = {
    'la.fj': """ns lv {
    def stub {
        ;
    }
    def stubs < table_start, table_end {
        rep((table_end - table_start) / (2*w), i) .stub
    }
    def nops n {
        rep(n, i) .stub
    }
    def halt @ here {
      here:
        ;here
    }
    def pick a, b, c {
        ;(a > b) ? c : (c + 2*w)
    }
}
""",
    'lb.fj': """LVC = 3
ns lv2 {
    def twice n {
        lv.nops n
        lv.nops n
    }
    def wf a, v {
        wflip a, v
    }
    def grid n {
        rep(n, i) lv.nops i
    }
}
""",
}

LIB_EDITS = {
    'la.fj': [('        ;here\n', '        ;here\n        ;here\n'), ('rep(n, i) .stub', 'rep(n + 1, i) .stub')],
    'lb.fj': [('LVC = 3', 'LVC = 4'), ('        lv.nops n\n        lv.nops n\n', '        lv.nops n\n')],
}


def lib_program(k, k2, use):
    entries = '\n'.join('  ;0' for _ in range(k))
    body = {'stubs': '  lv.stubs\n', 'twice': '  lv2.twice LVC\n', 'grid': f'  lv2.grid {k2 + 1}\n',
            'pick': f'  lv.pick {k}, {k2}, main\n', 'wf': '  lv2.wf table_start, 5\n'}
    return f"  ;main\ntable_start:\n{entries}\ntable_end:\nmain:\n" + ''.join(body[u] for u in use) + \
        f"  lv.nops {k2}\n  lv.halt\n"


def lib_program(k, k2, use):  # noqa: F811  (extends the definition above: program constants, rep iterator names)
    entries = '\n'.join('  ;0' for _ in range(k))
    body = {'const': '', 'iter_kk': '  rep(2, kk) lv.stub\n', 'stubs': '  lv.stubs\n', 'twice': '  lv2.twice LVC\n',
            'grid': f'  lv2.grid {k2 + 1}\n', 'pick': f'  lv.pick {k}, {k2}, main\n', 'wf': '  lv2.wf table_start, 5\n'}
    head = f"kk = {k + 4}\n" if 'const' in use else ''
    return head + f"  ;main\ntable_start:\n{entries}\ntable_end:\nmain:\n" + ''.join(body[u] for u in use) + \
        f"  lv.nops {k2}\n  lv.halt\n"


OK.update({
    's_const_k': (True, ["k = 5\nstl.startup\nstl.output '0'+k\nstl.loop\n"]),
    's_rep_k': (True, ["stl.startup\nrep(3, k) stl.output 'a'+k\nstl.loop\n"]),
    's_label_k': (True, ["stl.startup\n;k\nk:\nstl.loop\n"]),
})
FAIL.update({
    'f_ns_divzero': (False, ["ns cfg {\n  STEP = 0\n  COUNT = 100 / .STEP\n}\n;0\n"]),
    'f_stl_ns_divzero': (True, ["stl.startup\nns cfg {\n  STEP = 0\n  COUNT = 100 / .STEP\n}\nstl.loop\n"]),
})


def _big_labels_program(n=24000):
    names = ', '.join(f'a_rather_long_local_label_name_number_{k}_padding_padding_padding' for k in range(8))
    body = '\n'.join(f'  a_rather_long_local_label_name_number_{k}_padding_padding_padding:' for k in range(8))
    return f"def m @ {names} {{\n{body}\n  ;$ + 2*w\n}}\ndef halt @ h {{\n h:\n ;h\n}}\n  rep({n}, i) m\n  halt\n"


# a program whose debug-label table is > 16 MiB of JSON (192 001 labels): size-dependent code paths of the writers
BIG = {'n_big_labels': (False, [_big_labels_program()])}

# pairs of programs that define a namespaced macro with the SAME full name and arity but different parameter /
# local-label names (anything keyed by macro name alone would confuse them)
OK.update({
    'n_ns2': (False, ["ns foo {\n  def m dst {\n    ;dst\n  }\n  ns bar {\n    def k @ other {\n      ;other\n     other:\n    }\n  }\n}\n"
                      "foo.m fin\nfoo.bar.k\nfin:\n  ;fin\n"]),
    's_ns_a': (True, ["ns app {\n  def put ch @ skip {\n    stl.output ch\n    ;skip\n   skip:\n  }\n}\nstl.startup\napp.put 'a'\nstl.loop\n"]),
    's_ns_b': (True, ["ns app {\n  def put value @ after {\n    ;after\n   after:\n    stl.output value\n  }\n}\nstl.startup\napp.put 'b'\nstl.loop\n"]),
})

# an expression nested far deeper than python's default recursion limit allows: fails (RecursionError inside the
# assembler's catch-all) in every fresh process, whatever recursion limit an EARLIER call of the same process used
FAIL.update({
    'f_deep_expr': (False, ["  ;$ " + "+ 2*w " * 1200 + "\n"]),
})

# source errors that surface LATE: the word does not fit the width, which only the writer's struct.pack notices -
# after the output file has been opened (at w=16; at the wider widths these programs simply assemble)
FAIL.update({
    'f_late_word': (False, ["  ;0\n  ;1<<20\n"]),
    'f_late_wflip': (False, ["  ;0\nx:\n  wflip 1<<20, 5\n"]),
})


# moderately deep label expressions: they assemble under the default limits (2 python frames per term), and are the
# probes that notice a recursion limit LOWERED by an earlier call (f_deep_expr notices a raised one)
def _expr_program(terms):
    # a forward label inside the expression: it can only be evaluated in the labels-resolve stage, after the
    # preprocessor has finished
    return ";code\ncode:\n    ;(" + "+".join(["t"] * terms) + ")*0 + end\nt:\nend:\n    ;end\n"


OK.update({
    'n_expr80': (False, [_expr_program(80)]),
    'n_expr300': (False, [_expr_program(300)]),
    'n_expr80_here': (False, ["  ;$ " + "+ 2*w " * 80 + "\n"]),
})


# deep nesting inside a MACRO BODY: the parser validates the labels of a macro body recursively over the expression
# tree, i.e. in the PARSING stage - before the macro-resolve stage has set the recursion limit of the call. These are
# the probes that notice a limit leaked by an EARLIER call (300 deep assembles in a fresh process, 600 deep does not)
def _macro_deep(depth):
    return "def m a {\n  ;" + "a+(" * depth + "a" + ")" * depth + "\n}\nm 0\n"


OK.update({'n_mdeep300': (False, [_macro_deep(300)])})
FAIL.update({'f_mdeep600': (False, [_macro_deep(600)])})
