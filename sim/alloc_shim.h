/* force-included (gcc -include) when compiling the working-tree _fjcore.c for the allocation-failure variant:
   the engine's malloc/calloc/realloc go through counting wrappers that can fail the k-th call.
   The wrappers themselves (alloc_shim.c) are compiled WITHOUT this header. */
#ifndef VERIF_ALLOC_SHIM_H
#define VERIF_ALLOC_SHIM_H
#include <stdlib.h>
void* verif_malloc(size_t size);
void* verif_calloc(size_t count, size_t size);
void* verif_realloc(void* ptr, size_t size);
#define malloc verif_malloc
#define calloc verif_calloc
#define realloc verif_realloc
#endif
