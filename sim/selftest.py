"""Self-tests run by setup_cmd: (1) the reference machine reproduces the repository's test catalogue,
(2) every simulator is deterministic: same seed -> same digests, across worker counts and hash seeds."""
import os
import subprocess
import sys
import time
from pathlib import Path

VERIF = Path(__file__).resolve().parent.parent
sys.path.insert(0, str(VERIF))
REPO = Path(os.environ.get('VERIF_REPO', '/repo'))

CATALOGUE = [
    # (program sources, use_stl, w, input file, expected output file)
    (['programs/print_tests/cat.fj'], True, 64, 'tests/inout/print_tests/cat.in', 'tests/inout/print_tests/cat.out'),
    (['programs/print_tests/hello_no-stl.fj'], False, 64, None, 'tests/inout/print_tests/hello_no-stl.out'),
    (['programs/print_tests/hello_world.fj'], True, 64, None, 'tests/inout/print_tests/hello_world.out'),
    (['programs/print_tests/hello_world.fj'], True, 32, None, 'tests/inout/print_tests/hello_world.out'),
    (['programs/print_tests/hexprint.fj'], True, 64, None, 'tests/inout/print_tests/hexprint.out'),
    (['programs/sanity_checks/simple.fj'], True, 64, None, 'tests/inout/sanity_checks/simple.out'),
    (['programs/sanity_checks/testbit.fj'], True, 64, None, 'tests/inout/sanity_checks/testbit.out'),
    (['programs/simple_math_checks/ncmp.fj'], True, 64, None, 'tests/inout/simple_math_checks/ncmp.out'),
    (['programs/sanity_checks/macro_hex_input.fj'], True, 64, 'tests/inout/sanity_checks/macro_hex_input.in',
     'tests/inout/sanity_checks/macro_hex_input.out'),
]


def model_validity():
    from sim import build
    build.install_fjcore('plain')
    import flipjump
    from flipjump.fjm.fjm_reader import Reader
    from flipjump.utils.exceptions import IOReadOnEOF
    from sim import fjmodel, case as C
    import tempfile
    ok = 0
    with tempfile.TemporaryDirectory(prefix='fjverif-selftest-') as td:
        for srcs, stl, w, inp, outp in CATALOGUE:
            srcs_p = [REPO / s for s in srcs]
            if not all(p.exists() for p in srcs_p) or not (REPO / outp).exists():
                print('  (skipped, files missing):', srcs)
                continue
            fjm = Path(td) / 'p.fjm'
            flipjump.assemble(srcs_p, fjm, memory_width=w, use_stl=stl, print_time=False)
            rd = Reader(fjm)
            segs = [(s.segment_start, s.segment_length) for s in rd.memory_segments]
            data = (REPO / inp).read_bytes() if inp else b''
            bits = [(b >> k) & 1 for b in data for k in range(8)]
            case = {'w': w, 'segments': [], 'input_bits': bits, 'script': {}, 'fault': None, 'probe_words': []}
            m = fjmodel.Machine(w, segs, dict(rd.memory))
            dev = C.SimDevice(case, 'off')
            t = time.time()
            cause, addr = fjmodel.run(m, dev, IOReadOnEOF, 30_000_000)
            out = dev.get_output()
            want = (REPO / outp).read_bytes()
            if cause != 'looping' or out != want:
                print(f'MODEL-INVALID {srcs} w={w}: cause={cause} out={out[:60]!r} want={want[:60]!r}')
                return False
            ok += 1
            print(f'  model ok: {srcs[0]} w={w}: {m.count} ops, {len(out)} output bytes, {time.time() - t:.1f}s')
    return ok >= 5


SLOW = {'C14': 48, 'C13': 24, 'C10': 200}


def determinism(checks, cases=400):
    """each check: digest with 16 workers == digest with 3 workers == digest in a fresh interpreter under other
    hash seeds; and run twice"""
    bad = False
    for cid in checks:
        digs = []
        for workers, hs in ((16, '0'), (3, '0'), (16, '1'), (5, '12345')):
            env = dict(os.environ, PYTHONHASHSEED=hs)
            r = subprocess.run([sys.executable, str(VERIF / 'run_check.py'), cid, '--cases', str(SLOW.get(cid, cases)), '--workers',
                                str(workers), '--digest-only'], env=env, capture_output=True, text=True, timeout=900)
            line = [ln for ln in r.stdout.splitlines() if ln.startswith('DIGEST')]
            if not line:
                print(f'DETERMINISM-ERROR {cid}: no digest; rc={r.returncode}\n{r.stdout[-2000:]}\n{r.stderr[-2000:]}')
                bad = True
                break
            digs.append(line[0])
        print(f'  determinism {cid}: {digs[0]} x{len(digs)} ->', 'ok' if len(set(digs)) == 1 else 'MISMATCH ' + str(digs))
        if len(set(digs)) != 1:
            bad = True
    return not bad


if __name__ == '__main__':
    what = sys.argv[1] if len(sys.argv) > 1 else 'all'
    rc = 0
    if what in ('all', 'model'):
        if not model_validity():
            rc = 1
    if what in ('all', 'determinism'):
        ids = sys.argv[2:] or ['C01', 'C07', 'C18', 'C19', 'C15', 'C10', 'C14', 'C13']
        if not determinism(ids):
            rc = 1
    sys.exit(rc)
