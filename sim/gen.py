"""Geometry-biased image generator (DESIGN.md section 4).

Everything is drawn from the `rng` handed in (a random.Random derived from VERIF_SEED); no other
source of randomness is consulted.
"""
PAGE = 1 << 14
MAGIC = 0xBB67AE8584CAA73B
FLAT_DEFAULT = 1 << 23


def max_words(w):
    return 1 << (w - (w.bit_length() - 1))


class Img:
    def __init__(self, w):
        self.w = w
        self.ww = w.bit_length() - 1
        self.mask = (1 << w) - 1
        self.segs = []  # [start, length, dlen]
        self.words = {}

    def add_seg(self, start, length, dlen):
        start &= ~1
        length = max(2, length + (length & 1))
        if start + length > max_words(self.w):
            return False
        for s, n, _ in self.segs:
            if start < s + n and s < start + length:
                return False
        dlen = min(dlen + (dlen & 1), length)
        self.segs.append([start, length, dlen])
        return True

    def dense(self, a):
        for s, n, d in self.segs:
            if s <= a < s + d:
                return True
        return False

    def in_seg(self, a):
        for s, n, d in self.segs:
            if s <= a < s + n:
                return True
        return False

    def put(self, bit_addr, nbits, value):
        """write nbits of value at bit_addr (only into dense words; the rest is dropped)"""
        w = self.w
        for i in range(nbits):
            b = bit_addr + i
            a, off = b >> self.ww, b & (w - 1)
            if self.dense(a):
                v = self.words.get(a, 0)
                if (value >> i) & 1:
                    v |= 1 << off
                else:
                    v &= ~(1 << off)
                self.words[a] = v

    def put_op(self, ip, f, j):
        self.put(ip, self.w, f & self.mask)
        self.put(ip + self.w, self.w, j & self.mask)

    def to_case(self):
        segs = []
        for s, n, d in sorted(self.segs):
            segs.append({'start': s, 'length': n, 'data': [self.words.get(s + i, 0) for i in range(d)]})
        return {'w': self.w, 'segments': segs}


def _geometry(rng, img, profile):
    """choose segments. returns list of tags describing what was built"""
    w = img.w
    mw = max_words(w)
    tags = []
    kinds = ['compact', 'multi', 'tails']
    if w >= 32:
        kinds += ['page_edge', 'same_slot', 'far', 'top', 'window', 'big_low_far']
        if profile in ('c07', 'c11', 'c19'):
            kinds += ['page_edge', 'same_slot', 'far', 'top', 'window', 'same_slot']
    elif w == 16:
        kinds += ['top', 'far']
    else:
        kinds += ['whole8', 'whole8']
    kind = rng.choice(kinds)
    tags.append(kind)

    # the low segment holding op 0 is always there
    if kind == 'whole8':
        img.add_seg(0, 32, 32)
        return tags
    low_len = rng.choice([4, 6, 8, 12, 16, 24, 32, 64, 100, 200]) if w > 8 else rng.choice([4, 6, 8, 12, 16, 24, 30])
    low_len = min(low_len, mw)
    if kind == 'tails':
        tail = rng.choice([2, 10, 500, 998, 1000, 1002, 3000, 20000, 1 << 16])
        tail = min(tail, mw - low_len)
        img.add_seg(0, low_len + tail, low_len)
    else:
        img.add_seg(0, low_len, low_len)

    def small_seg_at(start, dense=True):
        n = rng.choice([2, 4, 6, 8, 16, 32])
        ok = img.add_seg(start, n, n if dense else rng.choice([0, 2, n]))
        return ok

    if kind in ('multi', 'tails', 'compact'):
        nseg = {'compact': rng.choice([0, 0, 1]), 'multi': rng.randint(1, 4), 'tails': rng.choice([0, 1, 2])}[kind]
        for _ in range(nseg):
            hi = min(mw - 2, 4000 if w > 8 else 30)
            if hi <= 4:
                break
            start = rng.randrange(4, hi) & ~1
            if rng.random() < 0.3:
                n = rng.choice([1000, 1200, 5000])
                img.add_seg(start, min(n, mw - start), rng.choice([0, 2, 8]))
            else:
                small_seg_at(start, rng.random() < 0.8)
    if kind == 'page_edge':
        p = rng.choice([1, 1, 2, 16, 17, 512]) * PAGE
        before = rng.choice([2, 4, 8, 16])
        after = rng.choice([0, 0, 2, 4, 8])
        mode = rng.random()
        if mode < 0.4:
            img.add_seg(p - before, before + after, before + after)       # ends at / straddles the edge
        elif mode < 0.7:
            img.add_seg(p - before, before, before)                       # ends exactly at the edge
            if rng.random() < 0.5:
                img.add_seg(p, rng.choice([2, 4, 8]), 8)                  # and one starting at it
        else:
            img.add_seg(p, rng.choice([2, 4, 8, 16]), 16)                 # starts at the edge
        if rng.random() < 0.4:
            small_seg_at(rng.randrange(300, 4000) & ~1)
    if kind == 'same_slot':
        # two+ segments whose page indices are equal mod 16 (same slot of the native 16-way page cache)
        p0 = rng.choice([0, 0, 1, 3, 15])
        for k in range(rng.choice([1, 1, 2])):
            pk = p0 + 16 * rng.choice([1, 1, 2, 3, 64, 1 << 20 if w == 64 else 4])
            base = pk * PAGE
            off = rng.choice([0, 2, 100, PAGE - 16, PAGE - 8, PAGE - 2])
            n = rng.choice([2, 4, 8, 16])
            if off + n > PAGE and rng.random() < 0.5:
                n = PAGE - off
            img.add_seg(base + off, n, n)
        if p0 != 0:
            off = rng.choice([0, 2, 100, PAGE - 16, PAGE - 4, PAGE - 2])
            n = rng.choice([2, 4, 8, 16])
            img.add_seg(p0 * PAGE + off, n, n)
    if kind == 'far':
        for _ in range(rng.randint(1, 3)):
            if w == 64:
                e = rng.choice([24, 30, 40, 45, 50, 57])
                start = (1 << e) + rng.choice([0, 2, 64, PAGE - 4, PAGE - 2, -2, -8])
            elif w == 32:
                e = rng.choice([20, 23, 24, 26])
                start = (1 << e) + rng.choice([0, 2, 64, PAGE - 4, -2, -8])
            else:
                start = rng.randrange(1000, 4000)
            if rng.random() < 0.25 and w >= 32:
                img.add_seg(start, rng.choice([1 << 20, 1 << 30 if w == 64 else 1 << 20, 100000]), rng.choice([0, 4, 8]))
            else:
                small_seg_at(start)
        if w == 64 and rng.random() < 0.4:
            # a segment that holds the address the native fill constant points to
            img.add_seg((MAGIC >> 6) & ~1, 4, 4)
            tags.append('magic_target_seg')
    if kind == 'big_low_far':
        # a low segment longer than one 2^14-word page (data only at its start: page 0 gets loaded and lies wholly
        # inside the segment) plus an initialised far segment whose page index is congruent to a low page mod 64/128
        img.segs[0][1] = low_len + rng.choice([20000, 32768, 40000, 70000])
        img.segs[0][1] += img.segs[0][1] & 1
        far_page = rng.choice([64, 128, 1024, 1 << 12, (1 << 26) if w == 64 else 2048, 65, 129])
        n = rng.choice([4, 8, 16])
        img.add_seg(far_page * PAGE + rng.choice([0, 2, 100]), n, n)
        if rng.random() < 0.5:
            img.add_seg((far_page + rng.choice([64, 128])) * PAGE, 4, 4)
    if kind == 'top':
        n = rng.choice([2, 4, 8, 16])
        img.add_seg(mw - n, n, n)
        if rng.random() < 0.3:
            small_seg_at(rng.randrange(200, 2000) & ~1)
    if kind == 'window':
        # segments around the default flat window limit (2^23 words) and around small windows
        base = rng.choice([FLAT_DEFAULT, FLAT_DEFAULT, 1 << 10, 1 << 12])
        before = rng.choice([0, 2, 4, 8])
        after = rng.choice([0, 2, 4, 8])
        if before + after == 0:
            after = 4
        if base - before + before + after <= mw:
            img.add_seg(base - before, before + after, before + after)
        if rng.random() < 0.5:
            small_seg_at(base + rng.choice([16, 64, PAGE]))
    return tags


def _interesting_bits(rng, img, ops):
    """a pool of bit addresses worth flipping / jumping to"""
    w, ww = img.w, img.ww
    pool = []
    for s, n, d in img.segs:
        for a in (s, s + 1, s + d - 1, s + d, s + n - 2, s + n - 1):
            if s <= a < s + n:
                pool.append((a << ww) + rng.randrange(w))
        pool.append(((s + n) << ww))            # first bit past the segment
        if s > 0:
            pool.append((s << ww) - 1)          # last bit before the segment
        if n > d:
            pool.append(((s + rng.randrange(d, n)) << ww) + rng.randrange(w))   # inside the zero tail
    for ip in ops:
        pool.append(ip + rng.randrange(2 * w))
    return pool


def gen_image(rng, profile='c01', w=None):
    """returns (case_without_input, meta) - an image with wired ops"""
    if w is None:
        w = rng.choice([8, 16, 16, 32, 32, 32, 64, 64, 64, 64])
    img = Img(w)
    ww = img.ww
    dw = 2 * w
    mw = max_words(w)
    in_addr = 3 * w + w.bit_length()
    tags = _geometry(rng, img, profile)

    # ---- background fill of dense words
    fill = rng.choice(['zero', 'zero', 'small', 'rand', 'ptr'])
    dense_words = [s + i for s, n, d in img.segs for i in range(d)]
    if fill != 'zero':
        for a in dense_words:
            if fill == 'small':
                img.words[a] = rng.randrange(0, 4 * w)
            elif fill == 'rand':
                img.words[a] = rng.getrandbits(w)
            else:
                t = rng.choice(dense_words)
                img.words[a] = ((t & ~1) << ww) & img.mask

    # ---- op addresses
    nops = rng.randint(2, 14) if w > 8 else rng.randint(2, 8)
    nops = max(2, min(nops, len(dense_words) // 3))
    hazards = rng.choice([0, 0, 1, 1, 2, 3, 6])          # how many deliberately dangerous choices this case may make
    op_ips = [0]
    occupied = {0, 1}
    segs = img.segs
    slot_pool = []
    for s, n, d in segs:
        for a in range(s, s + d - 1, 2):
            if a >= 4 or w == 8:
                slot_pool.append(a << ww)
        if len(slot_pool) > 400:
            break
    rng.shuffle(slot_pool)
    dense_segs = [sg for sg in segs if sg[2] >= 2]
    cube = []
    if slot_pool and rng.random() < 0.6:
        # a 'cube' of op slots: base ^ subsets of a few address bits, so that flipping one bit of a jump word
        # redirects to another real op
        base = rng.choice(slot_pool)
        bits = rng.sample(range(ww + 1, ww + 6), rng.choice([2, 3]))
        for m in range(1, 1 << len(bits)):
            x = base
            for k, b in enumerate(bits):
                if (m >> k) & 1:
                    x ^= 1 << b
            cube.append(x)
        rng.shuffle(cube)
    for _attempt in range(4 * nops):
        if len(op_ips) >= nops:
            break
        r = rng.random()
        s, n, d = rng.choice(dense_segs)
        ip = None
        hazard_op = False
        if cube and r < 0.5:
            ip = cube.pop()
        elif r < 0.55 and slot_pool:
            ip = slot_pool.pop()
        elif r < 0.65 and len(op_ips) > 1:
            base = rng.choice(op_ips[1:])
            bit = ww + 1 + rng.randrange(0, 4)
            ip = base ^ (1 << bit)                                   # differs from another op in one address bit
        elif r < 0.72:
            ip = (rng.randrange(s, s + d) << ww)                    # any dense word (odd words included)
        elif r < 0.84:
            ip = (rng.randrange(s, max(s + 1, s + d - 2)) << ww) + rng.randrange(1, w)   # bit-unaligned
        elif r < 0.92:
            ip = rng.choice([dw, dw, 3 * w, in_addr, in_addr - dw + 1, rng.randrange(in_addr - dw + 1, in_addr + 1)])
        elif hazards > 0:
            hazards -= 1
            hazard_op = True
            s, n, d = rng.choice(segs)
            if rng.random() < 0.6:   # around the end of a segment
                ip = ((s + n - rng.choice([1, 1, 2, 3])) << ww) + rng.choice([0, 0, 0, 1, w - 1, rng.randrange(w)])
            else:                    # anywhere in a segment, dense or not
                ip = (rng.randrange(s, s + n) << ww) + rng.choice([0, 0, rng.randrange(w)])
        if ip is None or ip < 0 or ip >= (1 << w) or ip in op_ips:
            continue
        a0 = ip >> ww
        span = 2 if (ip & (w - 1)) == 0 else 3
        if not hazard_op:
            if not all(img.dense(a0 + k) for k in range(span)):
                continue
        if any((a0 + k) in occupied for k in range(span)) and rng.random() < 0.93:
            continue          # ops mostly do not overlap (a few do, on purpose)
        occupied.update(a0 + k for k in range(span))
        op_ips.append(ip)

    pool = _interesting_bits(rng, img, op_ips)
    in_seg_bits = [b for b in pool if img.in_seg(b >> ww)]

    # ---- wire the chain
    order = op_ips[:1] + rng.sample(op_ips[1:], len(op_ips) - 1)
    op_words = set()
    for ip in order:
        for k in range(3):
            op_words.add((ip >> ww) + k)
    safe_data = [a for a in dense_words if a not in op_words and a > 3]
    if not safe_data:
        safe_data = [a for a in (order[-1] >> ww, order[len(order) // 2] >> ww) if img.dense(a)]   # flip words of ops
    tail_words = [s + rng.randrange(d, n) for s, n, d in segs if n > d for _ in range(2)]
    op_set = set(order)
    jumps = {}
    wiring = []
    for i, ip in enumerate(order):
        last = (i == len(order) - 1)
        # jump target
        r = rng.random()
        if not last and r < 0.88:
            j = order[i + 1]
        elif last and r < 0.70:
            j = ip                                         # halt (if it does not flip itself)
        elif r < 0.90:
            j = ip
        elif r < 0.92:
            j = rng.randrange(0, dw)                       # null ip
        elif r < 0.94:
            j = rng.choice(order)                          # back/forward edge
        elif r < 0.96:
            j = rng.choice([dw, dw, 3 * w, in_addr - rng.randrange(0, dw)])    # go read input
        elif hazards > 0:
            hazards -= 1
            j = rng.choice(pool) if rng.random() < 0.7 else rng.getrandbits(w)
        else:
            j = order[i + 1] if not last else ip
        jumps[i] = j
        # flip target
        r = rng.random()
        if r < 0.25:
            f = dw + rng.randrange(2)
        elif r < 0.27:
            f = rng.choice([dw - 1, dw + 2])
        elif r < 0.43:
            # self-modifying code: flip a bit of an op's jump word, preferably so that it then points to another op
            victim_i = rng.choice([i, i, min(i + 1, len(order) - 1), rng.randrange(len(order))])
            victim = order[victim_i]
            vj = jumps.get(victim_i, order[min(victim_i + 1, len(order) - 1)])
            cands = [b for b in range(w) if (vj ^ (1 << b)) in op_set]
            if cands and rng.random() < 0.85:
                f = victim + w + rng.choice(cands)
            elif rng.random() < 0.25:
                f = victim + rng.randrange(dw)
            elif rng.random() < 0.2:
                f = victim + w + rng.randrange(ww + 1, min(w, ww + 8))
            elif safe_data:
                f = (rng.choice(safe_data) << ww) + rng.randrange(w)
            else:
                f = victim + rng.randrange(w)      # a bit of a flip word (matters only on re-execution)
        elif r < 0.48:
            f = 3 * w + rng.randrange(w)                                          # the input word
        elif r < 0.70 and safe_data:
            f = (rng.choice(safe_data) << ww) + rng.randrange(w)
        elif r < 0.78 and tail_words:
            f = (rng.choice(tail_words) << ww) + rng.randrange(w)                 # lazily-zero tail
        elif r < 0.82 and in_seg_bits:
            f = rng.choice(in_seg_bits)
        elif r < 0.93 and hazards > 0:
            hazards -= 1
            f = rng.choice(pool) if rng.random() < 0.7 else rng.getrandbits(w)
        else:
            f = rng.randrange(dw) if not safe_data else (rng.choice(safe_data) << ww) + rng.randrange(w)
        img.put_op(ip, f & img.mask, j & img.mask)
        wiring.append((ip, f & img.mask, j & img.mask))

    # ---- special word values
    if rng.random() < 0.35 and dense_words:
        for _ in range(rng.randint(1, 3)):
            a = rng.choice(safe_data) if (safe_data and rng.random() < 0.85) else rng.choice(dense_words)
            special = [img.mask, 1 << (w - 1), (1 << (w - 1)) | rng.getrandbits(w - 1), 0, 1]
            if w == 64:
                special += [MAGIC, MAGIC, MAGIC ^ (1 << rng.randrange(64)), MAGIC ^ (1 << in_addr % 64)]
            img.words[a] = rng.choice(special)
            tags.append('special_word')
    if w == 64 and rng.random() < 0.15:
        # wire an op around the fill constant: as its flip word, its jump word, or its flip target
        ip = rng.choice(order)
        how = rng.randrange(3)
        if how == 0:
            img.put(ip, w, MAGIC)
        elif how == 1:
            img.put(ip + w, w, MAGIC)
        elif dense_words:
            a = rng.choice(dense_words)
            k = rng.randrange(64)
            img.words[a] = MAGIC ^ (1 << k)
            img.put(ip, w, (a << ww) + k)
        tags.append('magic_wired')

    case = img.to_case()
    case['file_order'] = rng.choice(['asc', 'asc', 'desc', f'shuffle:{rng.getrandbits(16)}'])
    case['version'] = rng.choice([0, 1, 1, 2, 2, 3])
    case['lzma_preset'] = rng.choice([0, 0, 0, 1, 6])
    meta = {'tags': tags, 'ops': op_ips, 'pool': pool, 'in_seg_bits': in_seg_bits, 'wiring': wiring}
    return case, meta


def gen_io_loop(rng, w=None):
    """a cat-like program: a loop that reads one input bit per iteration through the IO cell, branches on it, echoes
    it (or its complement / a constant), optionally flips data and toggles one of its own jump words, and goes round
    until the input ends (EOF termination) - gives runs of hundreds of ops with dense IO"""
    if w is None:
        w = rng.choice([16, 32, 32, 64, 64])
    img = Img(w)
    ww = img.ww
    dw = 2 * w
    nslots = rng.choice([16, 24, 40])
    img.add_seg(0, 2 * nslots, 2 * nslots)
    extra = []
    if rng.random() < 0.4 and w >= 32:
        st = rng.choice([PAGE - 4, PAGE, 16 * PAGE, 16 * PAGE - 2, (1 << 20), FLAT_DEFAULT - 2, FLAT_DEFAULT])
        if img.add_seg(st, 8, 8):
            extra.append(st)
    free = list(range(2, nslots - 2, 2))
    rng.shuffle(free)
    T = free.pop()            # landing pair of the input op: slot T (bit 0) / T+1 (bit 1)
    pre = [free.pop() for _ in range(rng.randint(0, 2)) if free]
    body0 = [free.pop() for _ in range(rng.randint(0, 2)) if free]
    body1 = [free.pop() for _ in range(rng.randint(0, 2)) if free]
    scratch = [(nslots - 1) * dw + k for k in range(dw)]
    if extra:
        scratch += [(extra[0] << ww) + k for k in range(4 * w)]

    def a(slot):
        return slot * dw
    head = pre[0] if pre else None
    # op 0 -> (pre ops) -> IO cell (slot 1)
    chain = [0] + pre
    for i, sl in enumerate(chain):
        nxt = a(chain[i + 1]) if i + 1 < len(chain) else dw
        img.put_op(a(sl), rng.choice(scratch + [dw, dw + 1]), nxt)
    img.put_op(dw, rng.choice(scratch), a(T))          # the IO op: its jump word receives the input bit
    for b, body, slot in ((0, body0, T), (1, body1, T + 1)):
        seq = [slot] + body
        for i, sl in enumerate(seq):
            nxt = a(seq[i + 1]) if i + 1 < len(seq) else dw
            r = rng.random()
            if i == 0 and r < 0.8:
                f = dw + rng.choice([b, b, 1 - b, rng.randrange(2)])      # echo
            elif r < 0.9:
                f = rng.choice(scratch)
            else:
                f = a(sl) + w + (ww + 1)       # toggles its own jump word between two neighbouring slots
            img.put_op(a(sl), f, nxt)
            if sl != slot:
                img.put_op(a(sl + 1), rng.choice(scratch), dw)      # neighbour slot (target of a toggled jump)
    case = img.to_case()
    case['version'] = rng.choice([0, 1, 2, 3])
    case['lzma_preset'] = 0
    n = rng.choice([0, 1, 7, 8, 9, 33, 64, 100])
    case['input_bits'] = [rng.randrange(2) for _ in range(n)]
    case['script'] = {}
    case['fault'] = None
    case['probe_words'] = []
    return case, {'tags': ['io_loop'], 'ops': [], 'pool': [], 'in_seg_bits': [], 'wiring': []}


def gen_many_pages(rng, w=None, reserve_pages=0):
    """33..72 tiny segments, each on its own 2^14-word page, page indices chosen so that several collide in the
    native page table when it grows (p and p+64 / p+128 / p+256); one op per segment, hopping from page to page,
    each flipping a bit in yet another page - so every page is loaded before the run and touched during it"""
    if w is None:
        w = rng.choice([32, 64])
    img = Img(w)
    ww = img.ww
    dw = 2 * w
    npages = rng.choice([33, 34, 40, 65, 66, 72])
    max_page = (max_words(w) // PAGE) - 1
    pages = {0}
    base = rng.choice([1, 2, 5, 37])
    while len(pages) < npages:
        r = rng.random()
        if r < 0.5:
            p = base + rng.randrange(0, 40)
        elif r < 0.8:
            p = rng.choice(sorted(pages)) + rng.choice([64, 128, 256, 192])
        else:
            p = rng.randrange(1, min(max_page, 5000))
        if 0 < p <= max_page:
            pages.add(p)
    pages = sorted(pages)
    segs = {}
    for p in pages:
        off = rng.choice([0, 2, 100, PAGE - 8]) if p else 0
        n = 8
        img.add_seg(p * PAGE + off, n, n)
        segs[p] = p * PAGE + off
    # reserve-only segments on further pages: nothing is loaded there, so their pages come into being during the run,
    # when a device (or an op) first touches them
    tries = 0
    reserved = 0
    while reserved < reserve_pages and tries < 10 * reserve_pages:
        tries += 1
        p = rng.choice(pages) + rng.choice([1, 16, 64, 128, 256, rng.randrange(1, 4000)])
        if 0 < p <= max_page and p not in segs and img.add_seg(p * PAGE + rng.choice([0, 6, PAGE - 8]), 8, 0):
            segs[p] = None
            reserved += 1
    order = [0] + rng.sample(pages[1:], len(pages) - 1)
    for i, p in enumerate(order):
        ip = segs[p] << ww
        nxt = (segs[order[i + 1]] << ww) if i + 1 < len(order) else ip
        tgt = rng.choice(pages)
        f = ((segs[tgt] + 4 + rng.randrange(4)) << ww) + rng.randrange(w)     # a data word of some other page
        if rng.random() < 0.15:
            f = dw + rng.randrange(2)
        img.put_op(ip, f, nxt)
    case = img.to_case()
    case['file_order'] = rng.choice(['asc', 'desc', f'shuffle:{rng.getrandbits(16)}'])
    case['version'] = rng.choice([0, 1, 2, 3])
    case['lzma_preset'] = 0
    case['input_bits'] = []
    case['script'] = {}
    case['fault'] = None
    case['probe_words'] = []
    return case, {'tags': ['many_pages'], 'ops': [], 'pool': [], 'in_seg_bits': [], 'wiring': []}


def gen_input(rng):
    n = rng.choice([0, 0, 1, 2, 3, 7, 8, 9, 16, 33, 64])
    return [rng.randrange(2) for _ in range(n)]


def gen_case(rng, profile='c01', w=None):
    if w is None and rng.random() < 0.1:
        return gen_io_loop(rng)
    if w is None and profile in ('c07', 'c11', 'c01') and rng.random() < 0.02:
        return gen_many_pages(rng)
    if w is None and profile == 'c19' and rng.random() < 0.04:
        return gen_many_pages(rng, reserve_pages=rng.choice([0, 8, 40]))
    case, meta = gen_image(rng, profile, w)
    case['input_bits'] = gen_input(rng)
    case['script'] = {}
    case['fault'] = None
    case['probe_words'] = []
    return case, meta


def probe_words_for(rng, case, touched, extra=8):
    """the words whose values are compared: everything the model touched + a seeded sample of untouched
    in-segment words"""
    words = sorted(touched)
    segs = case['segments']
    for _ in range(extra):
        seg = rng.choice(segs)
        words.append(seg['start'] + rng.randrange(seg['length']))
    seen = set()
    out = []
    for a in words:
        if a not in seen:
            seen.add(a)
            out.append(a)
    return out[:600]
