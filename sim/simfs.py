"""storagesim: a simulated disk behind the repository's own file-access seams.

The repository opens files through the *name* `open` looked up in its modules' globals (fjm_writer, fjm_reader,
utils.functions) and through Path.open (source files). SimFS installs itself by module-level name injection (a
module attribute shadows the builtin) - no edit of /repo is needed - and serves an in-memory disk whose every
operation (open, read, write, close) is numbered, recorded and can fail according to a fault plan.
"""
import errno
import io
import os


_real_unlink = os.unlink


class SimCrash(BaseException):
    """the process dies here (power loss / kill): only what reached the simulated disk survives"""


class SimFile:
    """a file object of the simulated disk"""

    def __init__(self, fs, path, mode, data):
        self.fs = fs
        self.path = path
        self.mode = mode
        self.buf = bytearray(data)
        self.pos = 0
        self.closed = False
        self.binary = 'b' in mode

    # context manager
    def __enter__(self):
        return self

    def __exit__(self, exc_type, exc, tb):
        # like a real file: closing happens even when the body raised; a close error surfaces only if none is in flight
        try:
            self.close()
        except OSError:
            if exc_type is None:
                raise
        return False

    def write(self, data):
        if isinstance(data, str):
            data = data.encode('utf-8')
        data = bytes(data)
        op = self.fs._op('write', self.path, len(data))
        plan = self.fs.plan
        if plan and plan.get('op') == op:
            kind = plan['kind']
            if kind == 'oserror':
                raise OSError(plan.get('errno', errno.EIO), os.strerror(plan.get('errno', errno.EIO)), self.path)
            if kind == 'short':       # a short write followed by ENOSPC (full disk)
                n = min(len(data), plan.get('bytes', len(data) // 2))
                self._commit(data[:n])
                raise OSError(errno.ENOSPC, os.strerror(errno.ENOSPC), self.path)
        if plan and plan.get('kind') == 'crash' and plan.get('path') == self.path:
            # crash after byte b of this file: write what fits, then die
            room = plan['byte'] - self.fs.written.get(self.path, 0)
            if room < len(data):
                self._commit(data[:max(0, room)])
                raise SimCrash(f'crash after byte {plan["byte"]} of {self.path}')
        self._commit(data)
        return len(data)

    def _commit(self, data):
        self.buf[self.pos:self.pos + len(data)] = data
        self.pos += len(data)
        self.fs.written[self.path] = self.fs.written.get(self.path, 0) + len(data)
        self.fs.files[self.path] = bytes(self.buf)       # no fsync in the code under test: every write is 'durable'
        self.fs.write_calls.setdefault(self.path, []).append(len(data))

    def read(self, n=-1):
        op = self.fs._op('read', self.path, n)
        plan = self.fs.plan
        if plan and plan.get('op') == op and plan['kind'] == 'oserror':
            raise OSError(plan.get('errno', errno.EIO), os.strerror(plan.get('errno', errno.EIO)), self.path)
        if n is None or n < 0:
            out = bytes(self.buf[self.pos:])
            self.pos = len(self.buf)
        else:
            out = bytes(self.buf[self.pos:self.pos + n])
            self.pos += len(out)
        return out if self.binary else out.decode('utf-8')

    def close(self):
        if self.closed:
            return
        self.closed = True
        op = self.fs._op('close', self.path, 0)
        plan = self.fs.plan
        if plan and plan.get('op') == op and plan['kind'] == 'oserror':
            raise OSError(plan.get('errno', errno.EIO), os.strerror(plan.get('errno', errno.EIO)), self.path)

    def fileno(self):
        raise io.UnsupportedOperation('simulated file')


class SimFS:
    def __init__(self):
        self.files = {}          # path str -> bytes (the durable content)
        self.ops = []            # (index, kind, path, arg)
        self.plan = None
        self.written = {}
        self.write_calls = {}
        self.fired = False
        self.passthrough_prefixes = ()

    def reset_log(self):
        self.ops = []
        self.written = {}
        self.write_calls = {}
        self.fired = False

    def _op(self, kind, path, arg):
        idx = len(self.ops)
        self.ops.append((idx, kind, path, arg))
        if self.plan and self.plan.get('op') == idx:
            self.fired = True
        return idx

    def owns(self, path):
        p = str(path)
        return p.startswith('/simfs/')

    def open(self, path, mode='r', *args, **kwargs):
        p = str(path)
        if not self.owns(p):
            return io.open(path, mode, *args, **kwargs)
        op = self._op('open:' + mode, p, 0)
        plan = self.plan
        if plan and plan.get('op') == op and plan['kind'] == 'oserror':
            raise OSError(plan.get('errno', errno.EACCES), os.strerror(plan.get('errno', errno.EACCES)), p)
        if 'w' in mode:
            self.files[p] = b''              # truncation is immediate and durable
            return SimFile(self, p, mode, b'')
        if p not in self.files:
            raise FileNotFoundError(errno.ENOENT, os.strerror(errno.ENOENT), p)
        return SimFile(self, p, mode, self.files[p])

    def unlink(self, path, *args, **kwargs):
        p = os.fspath(path)
        if isinstance(p, bytes):
            p = p.decode()
        if not self.owns(p):
            return _real_unlink(path, *args, **kwargs)
        op = self._op('unlink', p, 0)
        plan = self.plan
        if plan and plan.get('op') == op and plan['kind'] == 'oserror':
            raise OSError(plan.get('errno', errno.EACCES), os.strerror(plan.get('errno', errno.EACCES)), p)
        if p not in self.files:
            raise FileNotFoundError(errno.ENOENT, os.strerror(errno.ENOENT), p)
        del self.files[p]

    # ---- installation into the repository's modules (name injection)
    def install(self):
        from flipjump.fjm import fjm_writer, fjm_reader
        from flipjump.utils import functions
        fjm_writer.open = self.open
        fjm_reader.open = self.open
        functions.open = self.open
        # removal of simulated files (Path.unlink -> os.unlink, os.remove): pass-through for every real path
        os.unlink = self.unlink
        os.remove = self.unlink

    @staticmethod
    def uninstall():
        from flipjump.fjm import fjm_writer, fjm_reader
        from flipjump.utils import functions
        for mod in (fjm_writer, fjm_reader, functions):
            if 'open' in mod.__dict__:
                del mod.__dict__['open']


# ------------------------------------------------------------------------------------------------------------------
class _ProxyFile:
    """a REAL file behind numbered, fault-injectable operations (write-through: every write that returns is on disk)"""

    def __init__(self, fs, real, path, mode):
        self.fs = fs
        self.real = real
        self.path = path
        self.mode = mode
        self.closed = False

    def __enter__(self):
        return self

    def __exit__(self, exc_type, exc, tb):
        try:
            self.close()
        except OSError:
            if exc_type is None:
                raise
        return False

    def _put(self, data):
        self.real.write(data)
        self.real.flush()
        self.fs.written[self.path] = self.fs.written.get(self.path, 0) + len(data)
        self.fs.write_calls.setdefault(self.path, []).append(len(data))

    def write(self, data):
        op = self.fs._op('write', self.path, len(data))
        plan = self.fs.plan
        if plan and plan.get('op') == op:
            if plan['kind'] == 'oserror':
                raise OSError(plan.get('errno', errno.EIO), os.strerror(plan.get('errno', errno.EIO)), self.path)
            if plan['kind'] == 'short':
                n = min(len(data), plan.get('bytes', len(data) // 2))
                self._put(data[:n])
                raise OSError(errno.ENOSPC, os.strerror(errno.ENOSPC), self.path)
        if plan and plan.get('kind') == 'crash' and plan.get('path') == self.path:
            room = plan['byte'] - self.fs.written.get(self.path, 0)
            if room < len(data):
                self._put(data[:max(0, room)])
                self.fs.fired = True
                raise SimCrash(f'crash after byte {plan["byte"]} of {self.path}')
        self._put(data)
        self.fs.after(op)
        return len(data)

    def read(self, n=-1):
        op = self.fs._op('read', self.path, n)
        plan = self.fs.plan
        if plan and plan.get('op') == op and plan['kind'] == 'oserror':
            raise OSError(plan.get('errno', errno.EIO), os.strerror(plan.get('errno', errno.EIO)), self.path)
        return self.real.read(n)

    def close(self):
        if self.closed:
            return
        self.closed = True
        op = self.fs._op('close', self.path, 0)
        self.real.close()
        plan = self.fs.plan
        if plan and plan.get('op') == op and plan['kind'] == 'oserror':
            raise OSError(plan.get('errno', errno.EIO), os.strerror(plan.get('errno', errno.EIO)), self.path)
        self.fs.after(op)


class FaultFS:
    """a REAL directory whose files are opened through numbered, fault-injectable operations. Everything else
    (stat, exists, unlink, rename) is the real file system, so code that inspects or removes its output sees the truth."""

    def __init__(self, base):
        self.base = str(base)
        self.ops = []
        self.plan = None
        self.written = {}
        self.write_calls = {}
        self.fired = False
        self.set_interrupt = None

    def reset_log(self):
        self.ops = []
        self.written = {}
        self.write_calls = {}
        self.fired = False

    def _op(self, kind, path, arg):
        idx = len(self.ops)
        self.ops.append((idx, kind, path, arg))
        if self.plan and self.plan.get('op') == idx:
            self.fired = True
        return idx

    def after(self, idx):
        """an interrupt that arrived while operation idx was inside the kernel: pending when the call returns"""
        plan = self.plan
        if plan and plan.get('kind') == 'sigint_after' and plan.get('op') == idx and self.set_interrupt is not None:
            self.set_interrupt()

    def owns(self, path):
        return str(path).startswith(self.base)

    def _wrap_os(self, name):
        real = getattr(os, name)
        fs = self

        def wrapper(*args, **kwargs):
            paths = [os.fspath(a) for a in args[:2] if isinstance(a, (str, bytes, os.PathLike))]
            paths = [p.decode() if isinstance(p, bytes) else p for p in paths]
            if not any(fs.owns(p) for p in paths):
                return real(*args, **kwargs)
            idx = fs._op(name, paths[-1], 0)
            plan = fs.plan
            if plan and plan.get('op') == idx and plan['kind'] == 'oserror':
                raise OSError(plan.get('errno', errno.EACCES), os.strerror(plan.get('errno', errno.EACCES)), paths[0])
            result = real(*args, **kwargs)
            fs.after(idx)
            return result
        wrapper._verif_real = real
        return wrapper

    def open(self, path, mode='r', *args, **kwargs):
        p = str(path)
        if not self.owns(p):
            return io.open(path, mode, *args, **kwargs)
        op = self._op('open:' + mode, p, 0)
        plan = self.plan
        if plan and plan.get('op') == op and plan['kind'] == 'oserror':
            raise OSError(plan.get('errno', errno.EACCES), os.strerror(plan.get('errno', errno.EACCES)), p)
        f = _ProxyFile(self, io.open(path, mode, *args, **kwargs), p, mode)
        self.after(op)
        return f

    def install(self, set_interrupt=None):
        from flipjump.fjm import fjm_writer
        from flipjump.utils import functions
        self.set_interrupt = set_interrupt
        fjm_writer.open = self.open
        functions.open = self.open
        # renames and removals under the base directory become numbered operations too (real ones, pass-through
        # for every other path): os.replace / os.rename / os.unlink / os.remove
        for name in ('replace', 'rename', 'unlink', 'remove'):
            if not hasattr(getattr(os, name), '_verif_real'):
                setattr(os, name, self._wrap_os(name))
