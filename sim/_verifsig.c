/*
 * _verifsig - C helpers for faithful asynchronous-SIGINT injection (DESIGN.md section 1).
 *
 *  - on_instruction(code, offset): a sys.monitoring INSTRUCTION callback written in C. It counts events and, at the
 *    armed count, calls PyErr_SetInterrupt(): the interrupt becomes *pending* exactly there and CPython raises
 *    KeyboardInterrupt at its next genuine eval-breaker check - no Python bytecode of the harness runs in between.
 *  - Dev: an IO device whose read_bit / write_bit are C methods (no bytecode, so a pending interrupt set by them
 *    survives until the caller polls): records every call, serves scripted input bits, raises the EOF type, and
 *    sets the interrupt at a chosen call index.
 */
#define PY_SSIZE_T_CLEAN
#include <Python.h>
#include <string.h>

static long long g_count = 0;
static long long g_target = -1;
static int g_fired = 0;

static PyObject* on_instruction(PyObject* self, PyObject* const* args, Py_ssize_t nargs)
{
    (void)self; (void)args; (void)nargs;
    g_count++;
    if (g_count == g_target) {
        g_fired = 1;
        PyErr_SetInterrupt();
    }
    Py_RETURN_NONE;
}

static PyObject* arm(PyObject* self, PyObject* args)
{
    long long target;
    (void)self;
    if (!PyArg_ParseTuple(args, "L", &target)) {
        return NULL;
    }
    g_count = 0;
    g_target = target;
    g_fired = 0;
    Py_RETURN_NONE;
}

static PyObject* set_interrupt(PyObject* self, PyObject* noargs)
{
    (void)self; (void)noargs;
    /* the interrupt arrived while the caller was inside a system call: it is pending when the call returns */
    PyErr_SetInterrupt();
    Py_RETURN_NONE;
}

static PyObject* status(PyObject* self, PyObject* noargs)
{
    (void)self; (void)noargs;
    return Py_BuildValue("Li", g_count, g_fired);
}

typedef struct {
    PyObject_HEAD
    char* in_bits;
    Py_ssize_t n_in, pos;
    PyObject* eof_type;
    long long fire_at;
    long long ncalls;
    unsigned char* log;
    Py_ssize_t log_len, log_cap;
    int fired;
} Dev;

static int dev_log(Dev* d, unsigned char v)
{
    if (d->log_len == d->log_cap) {
        Py_ssize_t cap = d->log_cap ? d->log_cap * 2 : 4096;
        unsigned char* n = (unsigned char*)realloc(d->log, (size_t)cap);
        if (!n) {
            PyErr_NoMemory();
            return -1;
        }
        d->log = n;
        d->log_cap = cap;
    }
    d->log[d->log_len++] = v;
    return 0;
}

static int Dev_init(PyObject* op, PyObject* args, PyObject* kwds)
{
    Dev* d = (Dev*)op;
    const char* bits;
    Py_ssize_t n;
    PyObject* eof_type;
    long long fire_at;
    (void)kwds;
    if (!PyArg_ParseTuple(args, "y#OL", &bits, &n, &eof_type, &fire_at)) {
        return -1;
    }
    free(d->in_bits);
    d->in_bits = (char*)malloc((size_t)n + 1);
    if (!d->in_bits) {
        PyErr_NoMemory();
        return -1;
    }
    memcpy(d->in_bits, bits, (size_t)n);
    d->n_in = n;
    d->pos = 0;
    Py_INCREF(eof_type);
    Py_XDECREF(d->eof_type);
    d->eof_type = eof_type;
    d->fire_at = fire_at;
    d->ncalls = 0;
    d->log_len = 0;
    d->fired = 0;
    return 0;
}

static void Dev_dealloc(PyObject* op)
{
    Dev* d = (Dev*)op;
    free(d->in_bits);
    free(d->log);
    Py_XDECREF(d->eof_type);
    Py_TYPE(op)->tp_free(op);
}

static PyObject* Dev_write_bit(PyObject* op, PyObject* bit)
{
    Dev* d = (Dev*)op;
    long long idx = d->ncalls++;
    if (dev_log(d, (unsigned char)(bit == Py_True ? 1 : (bit == Py_False ? 0 : (PyObject_IsTrue(bit) ? 1 : 0)))) < 0) {
        return NULL;
    }
    if (idx == d->fire_at) {
        d->fired = 1;
        PyErr_SetInterrupt();
    }
    Py_RETURN_NONE;
}

static PyObject* Dev_read_bit(PyObject* op, PyObject* noargs)
{
    Dev* d = (Dev*)op;
    long long idx = d->ncalls++;
    (void)noargs;
    if (idx == d->fire_at) {
        d->fired = 1;
        PyErr_SetInterrupt();
    }
    if (d->pos >= d->n_in) {
        if (dev_log(d, 4) < 0) {
            return NULL;
        }
        PyErr_SetString(d->eof_type, "sim input exhausted");
        return NULL;
    }
    {
        int b = d->in_bits[d->pos++] ? 1 : 0;
        if (dev_log(d, (unsigned char)(2 + b)) < 0) {
            return NULL;
        }
        if (b) {
            Py_RETURN_TRUE;
        }
        Py_RETURN_FALSE;
    }
}

static PyObject* Dev_get_log(PyObject* op, PyObject* noargs)
{
    Dev* d = (Dev*)op;
    (void)noargs;
    return PyBytes_FromStringAndSize((const char*)d->log, d->log_len);
}

static PyObject* Dev_get_fired(PyObject* op, void* closure)
{
    (void)closure;
    return PyLong_FromLong(((Dev*)op)->fired);
}

static PyObject* Dev_get_ncalls(PyObject* op, void* closure)
{
    (void)closure;
    return PyLong_FromLongLong(((Dev*)op)->ncalls);
}

static PyMethodDef Dev_methods[] = {
    {"write_bit", (PyCFunction)Dev_write_bit, METH_O, "record an output bit (C, no bytecode)"},
    {"read_bit", (PyCFunction)Dev_read_bit, METH_NOARGS, "serve the next scripted input bit or raise the EOF type"},
    {"get_log", (PyCFunction)Dev_get_log, METH_NOARGS, "bytes: 0/1 output bit, 2/3 input bit, 4 EOF"},
    {NULL, NULL, 0, NULL},
};

static PyGetSetDef Dev_getset[] = {
    {"fired", Dev_get_fired, NULL, "did this device set the interrupt", NULL},
    {"ncalls", Dev_get_ncalls, NULL, "device calls so far", NULL},
    {NULL, NULL, NULL, NULL, NULL},
};

static PyTypeObject DevType = {
    PyVarObject_HEAD_INIT(NULL, 0)
    .tp_name = "_verifsig.Dev",
    .tp_basicsize = sizeof(Dev),
    .tp_flags = Py_TPFLAGS_DEFAULT,
    .tp_new = PyType_GenericNew,
    .tp_init = Dev_init,
    .tp_dealloc = Dev_dealloc,
    .tp_methods = Dev_methods,
    .tp_getset = Dev_getset,
};

static PyMethodDef module_methods[] = {
    {"on_instruction", (PyCFunction)(void (*)(void))on_instruction, METH_FASTCALL, "sys.monitoring INSTRUCTION callback"},
    {"arm", arm, METH_VARARGS, "arm(n): set the interrupt at the n-th INSTRUCTION event from now (n<=0: never)"},
    {"status", status, METH_NOARGS, "(events counted, fired)"},
    {"set_interrupt", set_interrupt, METH_NOARGS, "make a SIGINT pending now (PyErr_SetInterrupt)"},
    {NULL, NULL, 0, NULL},
};

static PyModuleDef moduledef = {PyModuleDef_HEAD_INIT, "_verifsig", "SIGINT injection helpers", -1, module_methods,
                                NULL, NULL, NULL, NULL};

PyMODINIT_FUNC PyInit__verifsig(void)
{
    PyObject* m;
    if (PyType_Ready(&DevType) < 0) {
        return NULL;
    }
    m = PyModule_Create(&moduledef);
    if (!m) {
        return NULL;
    }
    Py_INCREF(&DevType);
    if (PyModule_AddObject(m, "Dev", (PyObject*)&DevType) < 0) {
        Py_DECREF(&DevType);
        Py_DECREF(m);
        return NULL;
    }
    return m;
}
