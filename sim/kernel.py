"""Simulator kernel shared by all checks: seeding, workers, watchdog, journal, aggregation, evidence,
known findings, replay files.  (DESIGN.md section 2)

A check module provides:
    ID, LEVEL, TITLE, RULE, COMPONENTS, ASSUMPTIONS
    plan(tier) -> {'cases': n, 'chunk': k, 'budget_s': s, 'case_timeout_s': t}
    setup_worker()                      (once per worker process, after fork)
    gen(rng, index, tier) -> case       (JSON-able)
    run(case) -> result dict            keys: violations, probes, faults, states, steps, nontrivial, digest
    minimise(case, violation) -> case   (optional)
    signature(case, violation) -> dict  (structural features for known-finding matching)
"""
import collections
import concurrent.futures as cf
import faulthandler
import hashlib
import json
import multiprocessing
import os
import random
import signal
import sys
import time
import traceback
from pathlib import Path

VERIF = Path(__file__).resolve().parent.parent
EVIDENCE = Path(os.environ.get('VERIF_EVIDENCE_DIR') or VERIF / 'evidence')
REPLAYS = Path(os.environ.get('VERIF_REPLAY_DIR') or VERIF / 'replays')
SCRATCH_ROOT = VERIF / '.scratch'
SCRATCH = SCRATCH_ROOT / f'run-{os.getpid()}'      # journals and worker stderr of THIS campaign (forked workers inherit it)
KNOWN = VERIF / 'known_findings.json'


class WatchdogTimeout(BaseException):
    pass


class HarnessError(Exception):
    """the harness itself is inadequate or broken: exit 2, never a VIOLATION line"""


class ShortStop(BaseException):
    """raised by the short wall timer that stops an endless (legitimate) generated program"""


_short_guard = {'on': False}


def _short_handler(signum, frame):
    if _short_guard['on']:
        _short_guard['on'] = False
        raise ShortStop()


class short_timer:
    """with short_timer(0.3): <run an engine>  - raises ShortStop inside the block after the wall time; never
    outside it (the handler only raises while the guard is on). restores the case watchdog afterwards."""

    def __init__(self, seconds):
        self.seconds = seconds

    def __enter__(self):
        self.old = signal.signal(signal.SIGALRM, _short_handler)
        self.remaining = signal.setitimer(signal.ITIMER_REAL, self.seconds)
        _short_guard['on'] = True
        return self

    def __exit__(self, et, ev, tb):
        _short_guard['on'] = False
        signal.setitimer(signal.ITIMER_REAL, 0)
        signal.signal(signal.SIGALRM, self.old)
        if self.remaining and self.remaining[0] > 0:
            signal.setitimer(signal.ITIMER_REAL, max(0.5, self.remaining[0]))
        return False


def case_rng(seed, check_id, index):
    h = hashlib.sha256(f'{seed}/{check_id}/{index}'.encode()).digest()
    return random.Random(int.from_bytes(h[:16], 'big'))


def digest_of(obj) -> str:
    return hashlib.sha256(json.dumps(obj, sort_keys=True, default=_default).encode()).hexdigest()[:20]


def _default(o):
    if isinstance(o, (set, frozenset)):
        return sorted(o)
    if isinstance(o, tuple):
        return list(o)
    if isinstance(o, bytes):
        return o.hex()
    return repr(o)


# ------------------------------------------------------------------------------------ worker side

_worker_check = None
_journal = None


def _alarm(signum, frame):
    raise WatchdogTimeout()


def _worker_init(check_modname, env):
    global _worker_check, _journal
    os.environ.update(env)
    SCRATCH.mkdir(parents=True, exist_ok=True)
    errf = open(SCRATCH / f'worker-{os.getpid()}.err', 'w')
    os.dup2(errf.fileno(), 2)           # C-level stderr noise (native fallback warnings) goes to a file
    sys.stderr = os.fdopen(os.dup(2), 'w', buffering=1)
    faulthandler.enable(file=errf, all_threads=True)
    signal.signal(signal.SIGINT, signal.default_int_handler)   # PyErr_SetInterrupt needs a python-level handler
    signal.signal(signal.SIGALRM, _alarm)
    import importlib
    _coverage_start()
    _worker_check = importlib.import_module(check_modname)
    _worker_check.setup_worker()
    _journal = open(SCRATCH / f'journal-{os.getpid()}', 'w')


def run_one(check, case, timeout_s):
    """run one case under the wall watchdog. returns the result dict (with 'hang' violation on timeout)"""
    signal.setitimer(signal.ITIMER_REAL, timeout_s)
    try:
        return check.run(case)
    except WatchdogTimeout:
        return {'violations': [{'clause': 'hang', 'config': None, 'expected': f'finishes within {timeout_s}s wall',
                                'observed': 'watchdog fired'}],
                'probes': {}, 'faults': {}, 'states': [], 'steps': 0, 'nontrivial': False, 'digest': 'hang'}
    finally:
        signal.setitimer(signal.ITIMER_REAL, 0)
        drain_interrupt()


def drain_interrupt():
    """a still-pending SIGINT flag must never leak into the next case"""
    try:
        for _ in range(3):
            time.sleep(0)
    except KeyboardInterrupt:
        pass


def _worker_chunk(args):
    seed, tier, indices, timeout_s, skip = args
    check = _worker_check
    agg = new_agg()
    for i in indices:
        if i in skip:
            continue
        _journal.seek(0)
        _journal.write(f'{i:<12d}')
        _journal.flush()
        rng = case_rng(seed, check.ID, i)
        try:
            case = check.gen(rng, i, tier)
            if case is None:
                agg['discarded'] += 1
                continue
            res = run_one(check, case, timeout_s)
        except WatchdogTimeout:
            agg['harness_errors'].append({'index': i, 'error': 'watchdog fired outside run()'})
            continue
        except Exception:
            agg['harness_errors'].append({'index': i, 'error': traceback.format_exc()})
            continue
        merge_result(agg, i, case, res)
    _journal.seek(0)
    _journal.write(f'{-1:<12d}')
    _journal.flush()
    _coverage_flush()
    return agg


_cov = None


def _coverage_start():
    """tools/coverage_report.py: line coverage of the repository's python files and gcov data of the native engine"""
    global _cov
    if os.environ.get('VERIF_PYCOV'):
        import coverage
        _cov = coverage.Coverage(data_file=os.environ['VERIF_PYCOV'], data_suffix=True, include=['*/flipjump/*'])
        _cov.start()


def _coverage_flush():
    if _cov is not None:
        _cov.stop()
        _cov.save()
        _cov.start()
    if os.environ.get('VERIF_GCOV'):
        import ctypes
        try:
            ctypes.CDLL(os.environ['VERIF_GCOV']).verif_gcov_dump()
        except (OSError, AttributeError):
            pass


def new_agg():
    return {'evaluations': 0, 'discarded': 0, 'nontrivial_digests': set(), 'probes': collections.Counter(),
            'faults': {}, 'states': set(), 'steps': 0, 'violations': [], 'harness_errors': [],
            'digests': {}, 'samples': [], 'violation_count': 0}


def merge_result(agg, index, case, res):
    agg['evaluations'] += 1
    agg['steps'] += res.get('steps', 0)
    for k, v in (res.get('probes') or {}).items():
        agg['probes'][k] += v
    for k, (conf, fired) in (res.get('faults') or {}).items():
        cur = agg['faults'].setdefault(k, [0, 0])
        cur[0] += conf
        cur[1] += fired
    for s in res.get('states') or ():
        agg['states'].add(s)
    d = res.get('digest')
    if os.environ.get('VERIF_KEEP_DIGESTS'):
        agg['digests'][index] = d            # only the determinism self-test needs every digest
    if res.get('nontrivial'):
        agg['nontrivial_digests'].add(int(str(d)[:14], 16) if d and all(ch in '0123456789abcdef' for ch in str(d)[:14]) else hash(d))
        if len(agg['samples']) < 2:
            agg['samples'].append({'index': index, 'case': case})
    for v in res.get('violations') or ():
        agg['violation_count'] += 1
        if len(agg['violations']) < 40:
            agg['violations'].append({'index': index, 'case': case, 'violation': v})


def merge_agg(a, b):
    a['evaluations'] += b['evaluations']
    a['discarded'] += b['discarded']
    a['nontrivial_digests'] |= b['nontrivial_digests']
    a['probes'].update(b['probes'])
    for k, (c, f) in b['faults'].items():
        cur = a['faults'].setdefault(k, [0, 0])
        cur[0] += c
        cur[1] += f
    a['states'] |= b['states']
    a['steps'] += b['steps']
    a['violation_count'] += b['violation_count']
    a['violations'].extend(b['violations'])
    a['harness_errors'].extend(b['harness_errors'])
    a['digests'].update(b['digests'])
    if len(a['samples']) < 4:
        a['samples'].extend(b['samples'][:4 - len(a['samples'])])


# ------------------------------------------------------------------------------------ campaign

def run_campaign(check, tier, seed, workers=None, n_cases=None, log=print):
    plan = check.plan(tier)
    n = n_cases if n_cases is not None else plan['cases']
    chunk = plan['chunk']
    budget = plan['budget_s']
    timeout_s = plan.get('case_timeout_s', 20)
    workers = workers or int(os.environ.get('VERIF_WORKERS', '0')) or min(16, os.cpu_count() or 4)
    SCRATCH.mkdir(parents=True, exist_ok=True)
    for f in SCRATCH.glob('journal-*'):
        try:
            f.unlink()
        except OSError:
            pass

    chunks = [list(range(s, min(s + chunk, n))) for s in range(0, n, chunk)]
    agg = new_agg()
    t0 = time.time()
    pending = list(range(len(chunks)))
    skip = set()
    crashes = []
    unrepro = [0]
    stopped_early = False
    ctx = multiprocessing.get_context('fork')
    rounds = 0
    while pending and rounds < 50:
        rounds += 1
        done_now = []
        broken = False
        with cf.ProcessPoolExecutor(max_workers=workers, mp_context=ctx, initializer=_worker_init,
                                    initargs=(check.__name__, {})) as pool:
            futs = {}
            it = iter(pending)
            # keep at most 2*workers chunks in flight so that the wall budget can stop the campaign
            def submit_next():
                for ci in it:
                    if time.time() - t0 > budget:
                        return False
                    futs[pool.submit(_worker_chunk, (seed, tier, chunks[ci], timeout_s, frozenset(skip)))] = ci
                    return True
                return False
            for _ in range(workers + 3):
                if not submit_next():
                    break
            while futs:
                finished, _ = cf.wait(list(futs), return_when=cf.FIRST_COMPLETED)
                for fu in finished:
                    ci = futs.pop(fu)
                    try:
                        merge_agg(agg, fu.result())
                        done_now.append(ci)
                    except cf.process.BrokenProcessPool:
                        broken = True
                    except Exception:
                        agg['harness_errors'].append({'index': None, 'error': traceback.format_exc()})
                        done_now.append(ci)
                if broken:
                    break
                while len(futs) < workers + 3:
                    if not submit_next():
                        break
            if time.time() - t0 > budget and not broken:
                stopped_early = any(True for _ in it) or stopped_early
        pending = [ci for ci in pending if ci not in set(done_now)]
        if broken:
            # a worker died (segfault / sanitizer abort / kill). candidates: the case each worker had in flight;
            # each candidate is re-run alone in a fresh process and only the ones that die again are reported.
            found = False
            cands = []
            for jf in SCRATCH.glob('journal-*'):
                try:
                    idx = int(jf.read_text().strip() or '-1')
                except ValueError:
                    idx = -1
                if idx >= 0 and idx not in skip:
                    cands.append(idx)
                jf.unlink()
            for idx in sorted(set(cands)):
                died, tail = isolate_case(check, tier, seed, idx)
                if died:
                    skip.add(idx)
                    crashes.append({'index': idx, 'stderr_tail': tail})
                    found = True
            if not found:
                agg['harness_errors'].append({'index': None, 'error': f'a worker died but none of the in-flight cases '
                                              f'{sorted(set(cands))} dies when re-run alone'})
                unrepro[0] += 1
                if unrepro[0] > 2:
                    break
        elif stopped_early or time.time() - t0 > budget:
            break
    for c in crashes:
        rng = case_rng(seed, check.ID, c['index'])
        try:
            case = check.gen(rng, c['index'], tier)
        except Exception:
            case = None
        agg['violation_count'] += 1
        agg['violations'].append({'index': c['index'], 'case': case, 'violation': {
            'clause': 'process-crash', 'config': None, 'expected': 'the host process survives',
            'observed': c['stderr_tail'][-1500:]}})
    agg['wall_s'] = time.time() - t0
    agg['planned'] = n
    import shutil
    shutil.rmtree(SCRATCH, ignore_errors=True)
    agg['stopped_early'] = bool(pending)
    return agg


def isolate_case(check, tier, seed, idx, timeout=180):
    """re-run one case index alone in a fresh interpreter; (died?, stderr tail)"""
    import subprocess
    env = dict(os.environ, VERIF_SEED=str(seed))
    try:
        r = subprocess.run([sys.executable, str(VERIF / 'run_check.py'), check.ID, '--tier', tier, '--one', str(idx)],
                           env=env, capture_output=True, text=True, timeout=timeout)
    except subprocess.TimeoutExpired:
        return False, 'isolation run timed out'
    died = r.returncode < 0 or r.returncode >= 100 or 'ERROR: AddressSanitizer' in r.stderr or 'runtime error:' in r.stderr \
        or 'Fatal Python error' in r.stderr
    return died, crash_summary(r.returncode, r.stderr)


def crash_summary(rc, stderr):
    lines = [ln for ln in stderr.splitlines() if not ln.startswith('flipjump: flat-storage')]
    key = [ln.strip() for ln in lines if ('ERROR: AddressSanitizer' in ln or 'runtime error:' in ln or 'SUMMARY:' in ln
                                          or 'Fatal Python error' in ln or ln.lstrip().startswith(('#0 ', '#1 ', '#2 ')))]
    return f'rc={rc}; ' + ' | '.join(key[:8]) + '\n' + '\n'.join(lines[-12:])[-1200:]


# ------------------------------------------------------------------------------------ findings / replay

def load_known():
    if not KNOWN.exists():
        return []
    return json.loads(KNOWN.read_text()).get('findings', [])


def match_known(prop, sig, known):
    for k in known:
        if k.get('property') != prop or k.get('status') != 'open':
            continue
        m = k.get('match') or {}
        if all(sig.get(key) == val for key, val in m.items()):
            return k
    return None


def violation_digest(case, v):
    return digest_of([case, {kk: v.get(kk) for kk in ('clause', 'config', 'expected', 'observed')}])


def write_replay(check_id, seed, entry, minimised_case, violation, sig):
    d = REPLAYS / check_id
    d.mkdir(parents=True, exist_ok=True)
    name = f"{check_id}-seed{seed}-run{entry['index']}-{digest_of([minimised_case, violation.get('clause')])[:8]}.json"
    path = d / name
    doc = {'property': check_id, 'seed': seed, 'run': entry['index'], 'minimised': minimised_case is not entry['case'],
           'case': minimised_case, 'original_case': entry['case'],
           'clause': violation.get('clause'), 'config': violation.get('config'),
           'expected': violation.get('expected'), 'observed': violation.get('observed'),
           'signature': sig, 'digest': violation_digest(minimised_case, violation),
           'violation_detail': {k: v for k, v in violation.items() if k not in ('config', 'expected', 'observed')}}
    path.write_text(json.dumps(doc, indent=1, default=_default))
    return path


def write_evidence(check, tier, seed, agg, extra_cov=None, violations=0):
    EVIDENCE.mkdir(exist_ok=True)
    wall = agg['wall_s']
    ev = agg['evaluations']
    cov = {
        'evaluations': ev,
        'distinct_nontrivial': len(agg['nontrivial_digests']),
        'rule': check.RULE,
        'samples': [json.loads(json.dumps(s, default=_default)) for s in agg['samples'][:2]],
        'planned_cases': agg['planned'],
        'stopped_early_on_wall_budget': agg['stopped_early'],
        'discarded_cases': agg['discarded'],
        'simulated_runs_per_hour': int(ev / wall * 3600) if wall > 0 else 0,
        'seeds_per_hour': int(ev / wall * 3600) if wall > 0 else 0,
        'simulated_steps': agg['steps'],
        'simulated_time_note': check.TIME_NOTE,
        'fault_counts': {k: {'configured': c, 'fired': f} for k, (c, f) in sorted(agg['faults'].items())},
        'probes': dict(sorted(agg['probes'].items())),
        'distinct_states': len(agg['states']),
        'distinct_states_measure': check.STATE_MEASURE,
        'components': check.COMPONENTS,
        'harness_errors': len(agg['harness_errors']),
    }
    if extra_cov:
        cov.update(extra_cov)
    doc = {'property_id': check.ID, 'tier': tier, 'seed': seed, 'level': check.LEVEL, 'coverage': cov,
           'assumptions': check.ASSUMPTIONS, 'wall_s': round(wall, 2), 'violations': violations}
    (EVIDENCE / f'{check.ID}.json').write_text(json.dumps(doc, indent=1, default=_default))
    return doc


# ------------------------------------------------------------------ work of the reporting process, done in a child

def in_child(fn, timeout_s):
    """run fn() in a forked child and return ('ok', result) | ('died', status) | ('timeout', None).

    The reporting process re-runs cases (hang confirmation, minimisation, signatures) on a tree that is known to be
    defective: a reduced case may crash the engine or loop forever. That must cost a minimised replay, never the
    verdict - so this work happens in a child that may die."""
    import pickle
    import select
    r, w = os.pipe()
    sys.stdout.flush()
    sys.stderr.flush()
    pid = os.fork()
    if pid == 0:
        status = 1
        try:
            os.close(r)
            signal.signal(signal.SIGALRM, _alarm)
            signal.setitimer(signal.ITIMER_REAL, timeout_s)
            try:
                out = ('ok', fn())
            except WatchdogTimeout:
                out = ('timeout', None)
            signal.setitimer(signal.ITIMER_REAL, 0)
            with os.fdopen(w, 'wb') as f:
                pickle.dump(out, f)
            status = 0
        except BaseException:   # noqa
            traceback.print_exc()
        finally:
            sys.stdout.flush()
            sys.stderr.flush()
            os._exit(status)
    os.close(w)
    chunks = []
    deadline = time.time() + timeout_s + 15
    timed_out = False
    while True:
        left = deadline - time.time()
        if left <= 0:
            timed_out = True
            break
        ready, _, _ = select.select([r], [], [], min(left, 1.0))
        if ready:
            b = os.read(r, 1 << 20)
            if not b:
                break
            chunks.append(b)
    os.close(r)
    if timed_out:
        try:
            os.kill(pid, signal.SIGKILL)
        except OSError:
            pass
    _, st = os.waitpid(pid, 0)
    if timed_out:
        return 'timeout', None
    if st != 0 or not chunks:
        return 'died', st
    try:
        return pickle.loads(b''.join(chunks))
    except Exception:       # noqa
        return 'died', st
