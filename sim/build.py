"""Build private variants of the native engine from the *working tree* _fjcore.c and load one.

Variants:  plain (-O2), asan (-O1 -g ASan+UBSan), shim (plain + allocation shim), asanshim.
Cached by sha256(source + flags) under /verif/.build/.  The in-place _fjcore.abi3.so in /repo is
untracked and is never used by the checks.
"""
import hashlib
import importlib.machinery
import importlib.util
import os
import subprocess
import sys
import sysconfig
from pathlib import Path

VERIF = Path(__file__).resolve().parent.parent
REPO = Path(os.environ.get('VERIF_REPO', '/repo'))
BUILD = VERIF / '.build'
SRC = REPO / 'flipjump' / 'interpreter' / '_fjcore.c'
SIM = VERIF / 'sim'

LIBASAN = '/usr/lib/gcc/x86_64-linux-gnu/12/libasan.so'

_FLAGS = {
    'cov': ['-O0', '-g', '--coverage'],
    'plain': ['-O2'],
    'asan': ['-O1', '-g', '-fsanitize=address,undefined', '-fno-sanitize-recover=all', '-fno-omit-frame-pointer'],
    'shim': ['-O2'],
    'asanshim': ['-O1', '-g', '-fsanitize=address,undefined', '-fno-sanitize-recover=all',
                 '-fno-omit-frame-pointer'],
}


def _include():
    return sysconfig.get_paths()['include']


def _hash(*parts: bytes) -> str:
    h = hashlib.sha256()
    for p in parts:
        h.update(p)
        h.update(b'\0')
    return h.hexdigest()[:16]


def build_fjcore(variant: str = 'plain') -> Path:
    """compile (or reuse) the variant; returns the .so path"""
    flags = _FLAGS[variant]
    src = SRC.read_bytes()
    shim = variant in ('shim', 'asanshim')
    extra = b''
    if variant == 'cov':
        extra = (SIM / 'covdump.c').read_bytes()
    if shim:
        extra = (SIM / 'alloc_shim.h').read_bytes() + (SIM / 'alloc_shim.c').read_bytes()
    key = _hash(src, ' '.join(flags).encode(), extra, sys.version.encode())
    out_dir = BUILD / f'{variant}-{key}'
    so = out_dir / '_fjcore.so'
    if so.exists():
        return so
    out_dir.mkdir(parents=True, exist_ok=True)
    tmp = out_dir / f'_fjcore.{os.getpid()}.so'
    common = ['gcc', '-shared', '-fPIC', '-fwrapv', '-w', '-I', _include()] + flags
    if shim:
        obj_core = out_dir / f'core.{os.getpid()}.o'
        obj_shim = out_dir / f'shim.{os.getpid()}.o'
        subprocess.run(['gcc', '-c', '-fPIC', '-fwrapv', '-w', '-I', _include()] + flags +
                       ['-include', str(SIM / 'alloc_shim.h'), str(SRC), '-o', str(obj_core)], check=True)
        subprocess.run(['gcc', '-c', '-fPIC', '-I', _include()] + flags +
                       [str(SIM / 'alloc_shim.c'), '-o', str(obj_shim)], check=True)
        subprocess.run(['gcc', '-shared'] + flags + [str(obj_core), str(obj_shim), '-o', str(tmp)], check=True)
        obj_core.unlink()
        obj_shim.unlink()
    elif variant == 'cov':
        # coverage build: object + notes file live in the build directory (gcov reads them from there)
        obj = out_dir / '_fjcore.o'
        subprocess.run(['gcc', '-c', '-fPIC', '-fwrapv', '-w', '-I', _include()] + flags + [str(SRC), '-o', str(obj)],
                       check=True, cwd=out_dir)
        obj2 = out_dir / 'covdump.o'
        subprocess.run(['gcc', '-c', '-fPIC', str(SIM / 'covdump.c'), '-o', str(obj2)], check=True)
        subprocess.run(['gcc', '-shared', '--coverage', str(obj), str(obj2), '-o', str(tmp)], check=True)
    else:
        subprocess.run(common + [str(SRC), '-o', str(tmp)], check=True)
    os.replace(tmp, so)
    return so


def build_helper(name: str) -> Path:
    """compile a C helper extension module sim/<name>.c (a full-API CPython module)"""
    src_path = SIM / f'{name}.c'
    src = src_path.read_bytes()
    key = _hash(src, sys.version.encode())
    out_dir = BUILD / f'{name}-{key}'
    so = out_dir / f'{name}.so'
    if so.exists():
        return so
    out_dir.mkdir(parents=True, exist_ok=True)
    tmp = out_dir / f'{name}.{os.getpid()}.so'
    subprocess.run(['gcc', '-shared', '-fPIC', '-O2', '-w', '-I', _include(), str(src_path), '-o', str(tmp)],
                   check=True)
    os.replace(tmp, so)
    return so


def load_ext(mod_name: str, path: Path):
    loader = importlib.machinery.ExtensionFileLoader(mod_name, str(path))
    spec = importlib.util.spec_from_file_location(mod_name, str(path), loader=loader)
    mod = importlib.util.module_from_spec(spec)
    loader.exec_module(mod)
    return mod


def install_fjcore(variant: str = 'plain'):
    """build + load the variant as flipjump.interpreter._fjcore, *before* fjm_run is imported."""
    if 'flipjump.interpreter.fjm_run' in sys.modules:
        raise RuntimeError('install_fjcore must be called before flipjump.interpreter.fjm_run is imported')
    so = build_fjcore(variant)
    mod = load_ext('flipjump.interpreter._fjcore', so)
    sys.modules['flipjump.interpreter._fjcore'] = mod
    import flipjump.interpreter as pkg  # noqa
    pkg._fjcore = mod
    from flipjump.interpreter import fjm_run
    assert fjm_run._fjcore is mod, 'private _fjcore build was not picked up'
    return mod


def asan_env(env=None):
    env = dict(os.environ if env is None else env)
    env['LD_PRELOAD'] = LIBASAN
    env['ASAN_OPTIONS'] = 'detect_leaks=0:abort_on_error=1:halt_on_error=1:allocator_may_return_null=1'
    env['UBSAN_OPTIONS'] = 'halt_on_error=1:abort_on_error=1:print_stacktrace=1'
    # CPython's small-object allocator hides object lifetimes from ASan; with the system allocator a mishandled
    # reference (use after free / double free of a Python object by the engine) is reported by ASan itself
    env['PYTHONMALLOC'] = 'malloc'
    return env


if __name__ == '__main__':
    for v in sys.argv[1:] or ['plain', 'asan']:
        print(v, build_fjcore(v))
