/* linked into the coverage build of the native engine: exports the (hidden) gcov dump entry point */
extern void __gcov_dump(void);
extern void __gcov_reset(void);
void verif_gcov_dump(void) { __gcov_dump(); __gcov_reset(); }
