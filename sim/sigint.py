"""Asynchronous-interrupt family of C18 (DESIGN.md 5.7, F6/F7).

Programs that loop for ever (so only the interrupt can stop them); the interrupt is made *pending* by a C
monitoring callback at the n-th bytecode instruction of the repository's run-loop code objects (python loops) or
by the C device at IO call c (all engines; the native loop only notices at its signal poll).
"""
import sys

from sim import build, case as C, fjmodel

_sig = None
TOOL = 3
_monitored = False
POLL = 1 << 18


def helper():
    global _sig
    if _sig is None:
        _sig = build.load_ext('_verifsig', build.build_helper('_verifsig'))
    return _sig


def monitored_code_objects():
    """the code objects of the pure-python engines' run loops and of the helpers they call per op. Found by name
    pattern, not by a fixed list: a refactoring that renames, removes or adds a helper must not break the harness
    (a helper that is missed only means that no interrupt lands inside it)."""
    import types
    from flipjump.interpreter import fjm_run
    from flipjump.fjm import fjm_reader
    from flipjump.utils import classes
    fns = []
    for name, f in vars(fjm_run).items():
        if isinstance(f, types.FunctionType) and f.__module__ == fjm_run.__name__ and \
                name.startswith(('_run_fast', '_run_featured', '_handle_', '_trace_')):
            fns.append(f)
    not_per_op = ('__', '_init', '_read_', '_decompress', '_validate', '_load', '_parse', '_check', 'get_memory',
                  'memory_segments', 'assert_')
    for name, f in vars(fjm_reader.Reader).items():
        if isinstance(f, types.FunctionType) and not name.startswith(not_per_op):
            fns.append(f)
    rs = classes.RunStatistics
    for owner, names in ((rs, ('register_op', 'register_op_address')),
                         (getattr(rs, 'PauseTimer', None), ('__enter__', '__exit__'))):
        for name in names:
            f = getattr(owner, name, None) if owner is not None else None
            if isinstance(f, types.FunctionType):
                fns.append(f)
    return [f.__code__ for f in fns]


def enable_monitoring():
    global _monitored
    if _monitored:
        return
    sig = helper()
    mon = sys.monitoring
    if mon.get_tool(TOOL) is None:
        mon.use_tool_id(TOOL, 'verif-sigint')
    mon.register_callback(TOOL, mon.events.INSTRUCTION, sig.on_instruction)
    for code in monitored_code_objects():
        mon.set_local_events(TOOL, code, mon.events.INSTRUCTION)
    sig.arm(-1)
    _monitored = True


# ---------------------------------------------------------------------------------- looping programs

def build_loop_case(rng, w, long_input=False):
    """a program with a short prefix and an endless cycle (IO, data flips, self-modification inside the cycle)"""
    ww = w.bit_length() - 1
    dw = 2 * w
    mask = (1 << w) - 1
    nwords_cap = 1 << (w - ww)
    nslots = min(40, nwords_cap // 2)
    if nslots < 10:
        return None
    words = [0] * (2 * nslots)
    scratch_slots = list(range(nslots - 4, nslots))

    def scratch_bit():
        return rng.choice(scratch_slots) * dw + rng.randrange(dw)
    # even-numbered slot pairs (T, T+1) are used as the two landing sites of an input op
    free_pairs = [s for s in range(2, nslots - 5, 2)]
    rng.shuffle(free_pairs)
    if len(free_pairs) < 3:
        return None
    ncycle = rng.randint(2, min(5, len(free_pairs) - 1)) if w > 8 else 2
    nprefix = rng.randint(0, 2) if len(free_pairs) > ncycle + 2 else 0
    uses_input = False

    def set_op(slot, f, j):
        words[2 * slot] = f & mask
        words[2 * slot + 1] = j & mask
    # nodes: each node is a slot pair (T, T+1); entering via T normally. node kinds decide f
    nodes = [free_pairs.pop() for _ in range(nprefix + ncycle)]
    cyc = nodes[nprefix:]
    order = nodes
    # op 0 -> first node
    set_op(0, rng.choice([dw, dw + 1, scratch_bit()]), order[0] * dw)
    io_cell_used = False
    for i, T in enumerate(order):
        nxt = order[i + 1] if i + 1 < len(order) else cyc[0]
        kind = rng.choice(['flip', 'flip', 'out', 'out', 'in', 'selfmod'])
        if kind == 'in' and io_cell_used:
            kind = 'out'
        if kind == 'flip':
            set_op(T, scratch_bit(), nxt * dw)
            set_op(T + 1, scratch_bit(), nxt * dw)
        elif kind == 'out':
            set_op(T, dw + rng.randrange(2), nxt * dw)
            set_op(T + 1, dw + rng.randrange(2), nxt * dw)
        elif kind == 'in':
            # T jumps to the IO cell (slot 1); the IO op's jump word points to nxt pair: lands on nxt or nxt+1
            io_cell_used = True
            uses_input = True
            set_op(T, scratch_bit(), dw)
            set_op(T + 1, scratch_bit(), dw)
            set_op(1, scratch_bit(), nxt * dw)
        else:
            # self-modifying: T toggles bit (ww+1) of its own jump word -> alternates between nxt and nxt+1
            set_op(T, T * dw + w + (ww + 1), nxt * dw)
            set_op(T + 1, scratch_bit(), nxt * dw)
    # the landing site nxt+1 of every pair must continue the cycle too - done above (both ops of a pair are wired)
    nbits = (1 << 17) if long_input else 4096
    case = {'w': w, 'segments': [{'start': 0, 'length': 2 * nslots, 'data': words}], 'version': rng.choice([0, 1, 2, 3]),
            'lzma_preset': 0, 'script': {}, 'fault': None,
            'input_seed': rng.getrandbits(32), 'input_len': nbits if uses_input else 0,
            'probe_words': list(range(2 * nslots)), 'kind': 'sigint', 'tags': ['loop']}
    return case


def input_bits_of(case):
    import random
    r = random.Random(case['input_seed'])
    n = case['input_len']
    if n == 0:
        return []
    x = r.getrandbits(n)
    return [(x >> i) & 1 for i in range(n)]


def convert_model_log(log):
    out = bytearray()
    for e in log:
        if e[0] == 'w':
            out.append(e[2])
        elif e[0] == 'r':
            out.append(255)           # placeholder, replaced by the value below
        elif e[0] == 'eof':
            out[-1] = 4
    return out


class ModelRecorder:
    """device for the model in the interrupt family: same encoding as the C device log"""

    def __init__(self, bits, eof_exc):
        self.bits = bits
        self.pos = 0
        self.eof_exc = eof_exc
        self.log = bytearray()
        self.calls_op = []          # op index at which each call happened

    def attach(self, machine):
        self.m = machine

    def write_bit(self, bit):
        self.log.append(1 if bit else 0)
        self.calls_op.append(self.m.count)

    def read_bit(self):
        self.calls_op.append(self.m.count)
        if self.pos >= len(self.bits):
            self.log.append(4)
            raise self.eof_exc('sim input exhausted')
        b = self.bits[self.pos]
        self.pos += 1
        self.log.append(2 + b)
        return bool(b)


def model_states_at(case, k, last_ops_len, bits, max_ops):
    """run the reference machine k complete ops, then return the admissible stop states of op number k:
    list of (label, memory tuple, last_ops list, device log bytes). Also returns the recorder."""
    from flipjump.utils.exceptions import IOReadOnEOF
    m = fjmodel.Machine(case['w'], C.case_segments(case), C.case_words(case), last_ops_len)
    rec = ModelRecorder(bits, IOReadOnEOF)
    rec.attach(m)
    pw = case['probe_words']
    while m.count < k:
        r = m.step(rec)
        if r is not None:
            return None, rec, m          # the program terminated before k ops: not an endless program
    states = []

    def snap(label):
        states.append((label, tuple(m.mem.get(a, 0) for a in pw),
                       None if m.last_ops is None else list(m.last_ops), bytes(rec.log)))
    snap('P')
    try:
        for label in m.micro_steps(rec):
            if label == 'P':
                break
            snap(label)
    except (fjmodel.Fault, IOReadOnEOF):
        pass
    return states, rec, m


class CDevice:
    """IODevice facade whose read_bit / write_bit attributes are C methods"""

    def __init__(self, bits, fire_at_call):
        from flipjump.utils.exceptions import IOReadOnEOF
        self._d = helper().Dev(bytes(bits), IOReadOnEOF, fire_at_call)
        self.read_bit = self._d.read_bit
        self.write_bit = self._d.write_bit
        self.dm = None
        self.fired = None

    def attach_memory(self, dm):
        self.dm = dm

    def get_output(self, *, allow_incomplete_output=False):
        return b''

    @property
    def log(self):
        return self._d.get_log()

    @property
    def dev_fired(self):
        return self._d.fired


def run_interrupted(case, cfg, path, bits, instr_n=-1, fire_at_call=-1):
    """run the real engine; the interrupt becomes pending at instruction instr_n (python loops) or at device call
    fire_at_call. returns obs dict"""
    from flipjump.interpreter import fjm_run
    sig = helper()
    C.set_engine_env(cfg)
    dev = CDevice(bits, fire_at_call)
    # register as a virtual subclass so isinstance checks (none today) would hold
    obs = {}
    sig.arm(instr_n)
    try:
        st = fjm_run.run(path, io_device=dev, last_ops_debugging_list_length=cfg.get('last_ops'),
                         profile=(cfg['engine'] == 'featured'), flat_max_words=cfg.get('flat_max_words'))
        obs['outcome'] = ('term', str(st.termination_cause), st.memory_error_address)
        obs['ops'] = st.op_counter
        obs['last_ops'] = None if st.last_ops_addresses is None else list(st.last_ops_addresses)
    except KeyboardInterrupt:
        obs['outcome'] = ('raise', 'KeyboardInterrupt')
        obs['ops'] = None
        obs['last_ops'] = None
    except BaseException as e:  # noqa
        if type(e).__name__ == 'WatchdogTimeout':
            sig.arm(-1)
            raise
        obs['outcome'] = ('raise', type(e).__name__)
        obs['ops'] = None
        obs['last_ops'] = None
    finally:
        count, fired = sig.status()
        sig.arm(-1)
    obs['instr_events'] = count
    obs['fired'] = bool(fired) or bool(dev.dev_fired)
    obs['log'] = bytes(dev.log)
    obs['final'] = tuple(dev.dm.read_word(a) for a in case['probe_words']) if dev.dm is not None else None
    return obs
