/* counting allocation wrappers for the native engine (see alloc_shim.h). controlled through ctypes. */
#include <stdlib.h>

static long long verif_counter = 0;
static long long verif_fail_at = -1;
static long long verif_failed = 0;

void verif_alloc_arm(long long fail_at)
{
    verif_counter = 0;
    verif_fail_at = fail_at;
    verif_failed = 0;
}

long long verif_alloc_count(void) { return verif_counter; }
long long verif_alloc_failed(void) { return verif_failed; }

static int verif_should_fail(void)
{
    long long index = verif_counter++;
    if (index == verif_fail_at) {
        verif_failed++;
        return 1;
    }
    return 0;
}

void* verif_malloc(size_t size) { return verif_should_fail() ? NULL : malloc(size); }
void* verif_calloc(size_t count, size_t size) { return verif_should_fail() ? NULL : calloc(count, size); }
void* verif_realloc(void* ptr, size_t size) { return verif_should_fail() ? NULL : realloc(ptr, size); }
