"""Cases, the scripted device, and the two runners (reference machine / real engines).

A *case* is a JSON-able dict (DESIGN.md section 2):
  w, version, lzma_preset, segments:[{start,length,data:[...]}], input_bits:[0/1...],
  script: {"<call idx>": [[action...], ...]},  fault: null | {...},  probe_words: [...]
Everything the engines and the model do is a function of the case and the engine configuration.
"""
import os
import sys
import tempfile
import shutil
import atexit
from pathlib import Path

from sim import fjmodel

_scratch = None


def scratch_dir() -> Path:
    global _scratch
    if _scratch is None or _scratch[0] != os.getpid():
        base = '/dev/shm' if os.path.isdir('/dev/shm') and os.access('/dev/shm', os.W_OK) else None
        d = tempfile.mkdtemp(prefix='fjverif-', dir=base)
        _scratch = (os.getpid(), Path(d))
        atexit.register(_cleanup, os.getpid(), d)
    return _scratch[1]


def _cleanup(pid, d):
    if os.getpid() == pid:
        shutil.rmtree(d, ignore_errors=True)


# ---------------------------------------------------------------------------------- image

def case_words(case):
    """dict word_address -> value of every word with explicit data"""
    words = {}
    for seg in case['segments']:
        s = seg['start']
        for i, v in enumerate(seg['data']):
            words[s + i] = v
    return words


def case_segments(case):
    return [(seg['start'], seg['length']) for seg in case['segments']]


class WriterRefused(Exception):
    pass


def write_image(case, path: Path):
    """write the case's image through the REAL Writer (version, lzma and relative-jump paths run)"""
    from flipjump.fjm.fjm_writer import Writer
    from flipjump.fjm.fjm_consts import FJMVersion
    from flipjump.utils.exceptions import FlipJumpException
    try:
        wr = Writer(path, case['w'], FJMVersion(case.get('version', 1)), lzma_preset=case.get('lzma_preset', 0))
        segs = list(case['segments'])
        order = case.get('file_order', 'asc')      # the order of the segment table in the FILE (the image is the same)
        if order == 'desc':
            segs.reverse()
        elif isinstance(order, str) and order.startswith('shuffle:'):
            import random as _random
            _random.Random(int(order.split(':')[1])).shuffle(segs)
        for seg in segs:
            data = list(seg['data'])
            ds = wr.add_data(data)
            wr.add_segment(seg['start'], seg['length'], ds, len(data))
        wr.write_to_file()
    except FlipJumpException as e:
        raise WriterRefused(str(e)) from e


# ---------------------------------------------------------------------------------- faults

class SimIOError(Exception):
    """placeholder; the real class is created lazily as a subclass of flipjump's IODeviceException"""


_fault_classes = {}


def fault_classes():
    if not _fault_classes:
        from flipjump.utils.exceptions import IODeviceException, IOReadOnEOF, BrokenIOUsed

        class SimDeviceFailure(IODeviceException):
            pass

        class ForeignError(Exception):
            pass

        class SimBaseExc(BaseException):
            pass

        class SimPeerClosed(IOReadOnEOF):     # a device's own way of saying 'no more input': still the library's EOF
            pass

        _fault_classes.update(io=SimDeviceFailure, eof=IOReadOnEOF, broken=BrokenIOUsed, foreign=ForeignError,
                              value=ValueError, kbd=KeyboardInterrupt, baseexc=SimBaseExc,
                              epipe=BrokenPipeError, timeout=TimeoutError, oserr=OSError, runtime=RuntimeError,
                              memerr=MemoryError, stopiter=StopIteration, eofsub=SimPeerClosed)
    return _fault_classes


class BadBool:
    """read_bit result whose truth value raises"""

    def __init__(self, exc):
        self.exc = exc

    def __bool__(self):
        raise self.exc


# ---------------------------------------------------------------------------------- device

def _make_device_class():
    from flipjump.interpreter.io_devices.IODevice import IODevice
    from flipjump.utils.exceptions import IOReadOnEOF

    class SimDevice(IODevice):
        """The scripted device. Deterministic in (case, call index); records everything it sees."""

        def __init__(self, case, probe_mode='touched'):
            self.case = case
            self.input_bits = case['input_bits']
            self.script = case.get('script') or {}
            self.fault = case.get('fault')
            self.probe_words = case.get('probe_words') or []
            self.probe_mode = probe_mode
            self.dm = None
            self.n = 0            # device call index
            self.n_in = 0         # input bits consumed
            self.log = []         # ordered event log
            self.fired = None     # the exception object this device raised (fault)
            self.exc_factory = None

        # -- helpers
        def _probe(self):
            if self.probe_mode != 'off' and self.dm is not None and self.probe_words:
                rd = self.dm.read_word
                self.log.append(('mem', tuple(rd(a) for a in self.probe_words)))

        def _actions(self, idx):
            acts = self.script.get(str(idx))
            if not acts or self.dm is None:
                return
            dm = self.dm
            for act in acts:
                kind = act[0]
                if kind == 'rw':
                    self.log.append(('rw', act[1], dm.read_word(act[1])))
                elif kind == 'ww':
                    dm.write_word(act[1], act[2])
                    self.log.append(('ww', act[1], act[2]))
                elif kind == 'rb':
                    self.log.append(('rb', act[1], dm.read_data_byte(act[1])))
                elif kind == 'wb':
                    dm.write_data_byte(act[1], act[2])
                    self.log.append(('wb', act[1], act[2]))

        def _maybe_fault(self, idx, where):
            flt = self.fault
            if flt is None or flt.get('where', 'call') != where:
                return None
            if where == 'call' and flt['at'] != idx:
                return None
            kind = flt['kind']
            if kind == 'badbool' or kind == 'truthy' or kind == 'sigint_c':
                return kind
            exc = fault_classes()[kind](f'injected {kind} at {where} {idx}')
            self.fired = exc
            self.log.append(('fault', kind, idx))
            raise exc

        # -- IODevice
        def attach_memory(self, device_memory):
            self.dm = device_memory
            self._maybe_fault(-1, 'attach')
            if self.script.get('attach'):
                # a device may use the memory hook as soon as it gets it (preload a table, patch a variable)
                self.log.append(('attach',))
                self._actions('attach')

        def write_bit(self, bit):
            idx = self.n
            self.n += 1
            self.log.append(('w', idx, 1 if bit else 0))
            self._probe()
            self._maybe_fault(idx, 'call')
            self._actions(idx)

        def read_bit(self):
            idx = self.n
            self.n += 1
            self.log.append(('r', idx))
            self._probe()
            special = self._maybe_fault(idx, 'call')
            if self.n_in >= len(self.input_bits):
                self.log.append(('eof', idx))
                raise IOReadOnEOF('sim input exhausted')
            bit = self.input_bits[self.n_in]
            self.n_in += 1
            self._actions(idx)
            if special == 'badbool':
                exc = fault_classes()['foreign'](f'injected badbool at call {idx}')
                self.fired = exc
                self.log.append(('fault', 'badbool', idx))
                return BadBool(exc)
            if special == 'truthy':
                self.log.append(('fault', 'truthy', idx))
                return [0] if bit else []      # non-bool objects with the same truth value
            return bool(bit)

        def get_output(self, *, allow_incomplete_output=False):
            bits = [e[2] for e in self.log if e[0] == 'w']
            if not allow_incomplete_output and len(bits) % 8:
                from flipjump.utils.exceptions import IncompleteOutput
                raise IncompleteOutput('an unaligned number of bits was outputted')
            out = bytearray()
            for i in range(0, len(bits) - len(bits) % 8, 8):
                out.append(sum(b << k for k, b in enumerate(bits[i:i + 8])))
            return bytes(out)

    return SimDevice


_SimDevice = None


def SimDevice(*a, **kw):
    global _SimDevice
    if _SimDevice is None:
        _SimDevice = _make_device_class()
    return _SimDevice(*a, **kw)


# ---------------------------------------------------------------------------------- observations

def classify_exception(exc, device):
    """outcome tuple for an exception that left run()/the model"""
    cause = exc.__cause__
    return ('raise', type(exc).__name__, exc is device.fired,
            None if cause is None else type(cause).__name__, cause is device.fired if cause is not None else False)


def run_model(case, last_ops=None, probe_mode="touched", max_ops=2000, trace_limit=64):
    """run the reference machine on the case. returns (obs, machine)."""
    from flipjump.utils.exceptions import IOReadOnEOF, IODeviceException, FlipJumpException
    m = fjmodel.Machine(case['w'], case_segments(case), case_words(case), last_ops)
    m.trace_limit = trace_limit
    dev = SimDevice(case, probe_mode)
    obs = {}
    try:
        dev.attach_memory(fjmodel.ModelMemory(m))
        cause, addr = fjmodel.run(m, dev, IOReadOnEOF, max_ops)
        obs['outcome'] = ('term', cause, addr)
    except fjmodel.StepCap:
        obs['outcome'] = ('cap',)
    except KeyboardInterrupt:
        obs['outcome'] = ('term', 'keyboard-interrupt', None)
    except FlipJumpException as e:          # library exceptions (incl. IO ones) propagate unchanged
        obs['outcome'] = classify_exception(e, dev)
    except Exception as e:                  # anything else is wrapped as the library's runtime error
        obs['outcome'] = ('raise', 'FlipJumpRuntimeException', False, type(e).__name__, e is dev.fired)
    except BaseException as e:              # non-Exception BaseExceptions propagate unchanged
        if type(e).__name__ in ('WatchdogTimeout', 'ShortStop', '_ShortStop', 'HarnessError'):
            raise                               # the machinery's own wall limits are never an outcome of the MODEL
        obs['outcome'] = classify_exception(e, dev)
    raised = obs['outcome'][0] == 'raise'
    obs['ops'] = None if raised else m.count
    obs['last_ops'] = None if (m.last_ops is None or raised) else list(m.last_ops)
    obs['model_ops'] = m.count
    obs['log'] = dev.log
    obs['final'] = tuple(m.mem.get(a, 0) for a in (case.get('probe_words') or []))
    obs['micro'] = m.micro
    return obs, m


_ENV_KEYS = ('FLIPJUMP_NO_NATIVE', 'FLIPJUMP_NO_FLAT', 'FLIPJUMP_FLAT_MAX_WORDS', 'FLIPJUMP_TEST_FLAT_ALLOC_FAIL',
             'FLIPJUMP_MEASURE_SPECULATION')


def set_engine_env(cfg):
    for k in _ENV_KEYS:
        os.environ.pop(k, None)
    for k, v in (cfg.get('env') or {}).items():
        os.environ[k] = str(v)
    if cfg['engine'] == 'fast':
        os.environ['FLIPJUMP_NO_NATIVE'] = '1'


def run_engine(case, cfg, fjm_path, probe_mode='touched', device=None, breakpoint_handler=None):
    """run the real engine on the case under cfg. returns (obs, device)."""
    from flipjump.interpreter import fjm_run
    set_engine_env(cfg)
    dev = device if device is not None else SimDevice(case, probe_mode)
    obs = {}
    stats = None
    try:
        if cfg.get('via') == 'quickstart':
            # through the public wrapper flipjump.run (quickstart): it prints the termination, incl. the output so far
            import contextlib
            import io as _io
            import flipjump
            with contextlib.redirect_stdout(_io.StringIO()):
                stats = flipjump.run(fjm_path, io_device=dev, print_time=False, print_termination=True,
                                     last_ops_debugging_list_length=cfg.get('last_ops'),
                                     profile=(cfg['engine'] == 'featured'), flat_max_words=cfg.get('flat_max_words'))
        elif cfg.get('trace'):
            # the tracing variant of the featured loop (prints every op): selected by show_trace, not by profile
            import contextlib
            import io as _io
            with contextlib.redirect_stdout(_io.StringIO()):
                stats = fjm_run.run(fjm_path, io_device=dev, last_ops_debugging_list_length=cfg.get('last_ops'),
                                    show_trace=True, flat_max_words=cfg.get('flat_max_words'))
        else:
            stats = fjm_run.run(fjm_path, io_device=dev,
                                last_ops_debugging_list_length=cfg.get('last_ops'),
                                profile=(cfg['engine'] == 'featured'),
                                flat_max_words=cfg.get('flat_max_words'),
                                breakpoint_handler=breakpoint_handler)
        obs['outcome'] = ('term', str(stats.termination_cause), stats.memory_error_address)
        obs['ops'] = stats.op_counter
        obs['last_ops'] = None if stats.last_ops_addresses is None else list(stats.last_ops_addresses)
        obs['storage_mode'] = stats.storage_mode
    except BaseException as e:  # noqa - everything is an observation here
        if type(e).__name__ in ('WatchdogTimeout',):
            raise
        obs['outcome'] = classify_exception(e, dev)
        obs['ops'] = None
        obs['last_ops'] = None
        obs['storage_mode'] = None
    obs['log'] = dev.log
    if dev.dm is not None:
        rd = dev.dm.read_word
        obs['final'] = tuple(rd(a) for a in (case.get('probe_words') or []))
    else:
        obs['final'] = None
    return obs, dev


def compare(expected, observed, fields=('outcome', 'ops', 'last_ops', 'log', 'final')):
    """first differing field -> (clause, expected value, observed value); None if equal"""
    for f in fields:
        e, o = expected.get(f), observed.get(f)
        if f == 'log':
            if e != o:
                n = min(len(e), len(o))
                k = next((i for i in range(n) if e[i] != o[i]), n)
                return ('device-log', {'index': k, 'event': _j(e[k]) if k < len(e) else None, 'len': len(e)},
                        {'index': k, 'event': _j(o[k]) if k < len(o) else None, 'len': len(o)})
            continue
        if f == 'final' and (e is None or o is None):
            continue
        if e != o:
            clause = {'outcome': 'termination', 'ops': 'op-count', 'last_ops': 'last-ops', 'final': 'final-memory'}[f]
            return (clause, _j(e), _j(o))
    return None


def _j(x):
    if isinstance(x, tuple):
        return [_j(i) for i in x]
    if isinstance(x, list):
        return [_j(i) for i in x]
    return x
