"""The reference FlipJump machine (DESIGN.md section 3).

Written from the statement of C01, *not* derived from any of the three run loops.
Unbounded Python integers, no wrap-around anywhere.

    per op:  m0 last_ops.append(ip)
             m1 f = get_word(ip)
             m2 if f in {2w, 2w+1}: device.write_bit(f == 2w+1)
             m3 if ip <= 3w+#w < ip+2w: b = device.read_bit()       (IOReadOnEOF -> EOF termination)
             m4     store b into bit 3w+#w
             m5 flip bit f
             m6 j = get_word(ip+w); count += 1
                j == ip and not (ip <= f < ip+2w) -> looping ; j < 2w -> null-ip ; ip = j
"""
from collections import deque


class Fault(Exception):
    """access outside every segment"""

    def __init__(self, address):
        super().__init__(hex(address))
        self.address = address


class StepCap(Exception):
    pass


class ModelMemory:
    """the device's view of the model memory (same interface as flipjump's DeviceMemory)"""

    def __init__(self, machine):
        self._m = machine
        self.memory_width = machine.w

    def read_word(self, word_address):
        return self._m.mem.get(word_address, 0)

    def write_word(self, word_address, value):
        self._m.mem[word_address] = value & self._m.mask
        self._m.touched.add(word_address)

    def read_data_byte(self, op_bit_address):
        w = self.memory_width
        if w < 16:
            raise ValueError(f'packed data-bytes require memory_width >= 16, got {w}')
        return (self.read_word((op_bit_address >> self._m.ww) + 1) >> w.bit_length()) & 0xFF

    def write_data_byte(self, op_bit_address, value):
        w = self.memory_width
        if w < 16:
            raise ValueError(f'packed data-bytes require memory_width >= 16, got {w}')
        a = (op_bit_address >> self._m.ww) + 1
        off = w.bit_length()
        word = self.read_word(a)
        self.write_word(a, (word & ~(0xFF << off)) | ((value & 0xFF) << off))


class Machine:
    def __init__(self, w, segments, words, last_ops_len=None):
        """segments: list of (start_word, length_words); words: dict word_address -> value (in-segment only)"""
        self.w = w
        self.ww = w.bit_length() - 1
        self.mask = (1 << w) - 1
        self.segments = sorted((s, s + n) for s, n in segments)
        self.mem = dict(words)
        self.ip = 0
        self.count = 0
        self.last_ops = None if last_ops_len is None else deque(maxlen=last_ops_len)
        self.touched = set()       # words the program or device read or wrote (all in-segment for the program)
        self.micro = 'P'           # micro-step reached inside the current op
        self.ip_trace = []         # ip of every started op (bounded by caller's cap)
        self.f_trace = []          # flip word of every op that fetched one
        self.flags = set()         # probe flags for coverage measurement
        self.in_addr = 3 * w + w.bit_length()
        self.trace_limit = 0

    # ---- memory
    def in_segment(self, a):
        for s, e in self.segments:
            if s <= a < e:
                return True
        return False

    def word(self, a):
        if not self.in_segment(a):
            raise Fault(a << self.ww)
        self.touched.add(a)
        return self.mem.get(a, 0)

    def get_word(self, bit_address):
        a, off = bit_address >> self.ww, bit_address & (self.w - 1)
        if off == 0:
            return self.word(a)
        lo = self.word(a)
        hi = self.word(a + 1)
        return ((lo >> off) | (hi << (self.w - off))) & self.mask

    def set_bit(self, bit_address, value):
        a, off = bit_address >> self.ww, bit_address & (self.w - 1)
        v = self.word(a)
        self.mem[a] = (v | (1 << off)) if value else (v & ~(1 << off))

    def flip_bit(self, bit_address):
        a, off = bit_address >> self.ww, bit_address & (self.w - 1)
        v = self.word(a)
        self.mem[a] = v ^ (1 << off)

    def micro_steps(self, device):
        """execute ONE op as a generator yielding the micro-step label after each micro-step that changes
        observable state (m0, m2 if output, m3 if input consumed, m4, m5); the final 'P' is yielded after the
        count moved. exceptions (Fault, device errors) propagate."""
        w, ip = self.w, self.ip
        dw = 2 * w
        if self.last_ops is not None:
            self.last_ops.append(ip)
        yield 'm0'
        f = self.get_word(ip)
        if f == dw or f == dw + 1:
            device.write_bit(f == dw + 1)
            yield 'm2'
        if ip <= self.in_addr < ip + dw:
            b = device.read_bit()
            yield 'm3'
            self.set_bit(self.in_addr, bool(b))
            yield 'm4'
        self.flip_bit(f)
        yield 'm5'
        j = self.get_word(ip + w)
        self.count += 1
        self.ip = j
        yield 'P'

    # ---- one op; returns None to continue or a termination tuple
    def step(self, device):
        w, ip = self.w, self.ip
        dw = 2 * w
        self.micro = 'm0'
        if self.last_ops is not None:
            self.last_ops.append(ip)
        if len(self.ip_trace) < self.trace_limit:
            self.ip_trace.append(ip)
        self.micro = 'm1'
        f = self.get_word(ip)
        if len(self.f_trace) < self.trace_limit:
            self.f_trace.append(f)
        self.micro = 'm2'
        if f == dw or f == dw + 1:
            device.write_bit(f == dw + 1)
        self.micro = 'm3'
        if ip <= self.in_addr < ip + dw:
            b = device.read_bit()   # IOReadOnEOF handled by the caller (run)
            self.micro = 'm4'
            self.set_bit(self.in_addr, bool(b))
        self.micro = 'm5'
        self.flip_bit(f)
        self.micro = 'm6'
        j = self.get_word(ip + w)
        self.count += 1
        self.micro = 'P'
        if ip & (w - 1):
            self.flags.add('unaligned_ip')
        if ip <= f < ip + dw:
            self.flags.add('op_flips_own_words')
            if f >= ip + w:
                self.flags.add('op_flips_own_jump_word')
        if j == ip and not (ip <= f < ip + dw):
            return ('looping', None)
        if j == ip:
            self.flags.add('halt_vs_selfflip')
        if j < dw:
            return ('ip<2w', None)
        self.ip = j
        return None


def run(machine, device, eof_exc, max_ops):
    """run to termination. returns (cause, fault_address). device exceptions other than eof_exc
    (raised from read_bit) propagate to the caller with the machine stopped at the micro-step.
    raises StepCap after max_ops ops."""
    try:
        while True:
            if machine.count >= max_ops:
                raise StepCap()
            try:
                r = machine.step(device)
            except eof_exc:
                if machine.micro == 'm3':
                    return ('EOF', None)
                raise
            if r is not None:
                return r
    except Fault as flt:
        return ('runtime-memory-error', flt.address)


def step_outcome(machine, device, eof_exc):
    """execute one op; returns None (continue) or the termination tuple (cause, fault_address)"""
    try:
        try:
            return machine.step(device)
        except eof_exc:
            if machine.micro == 'm3':
                return ('EOF', None)
            raise
    except Fault as flt:
        return ('runtime-memory-error', flt.address)
