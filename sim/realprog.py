"""Real programs as workloads: a handful of the repository's own .fj programs, assembled with the REAL assembler
(standard library included) from the working tree, turned into simulator cases. They bring the code shapes the
geometry-biased generator does not make: wflip chains, table jumps, pointer dereferences, the IO conventions of
the standard library - and real debug-label tables for the debugger simulator.
"""
import contextlib
import hashlib
import io
import json
import os
from pathlib import Path

from sim import build, kernel

# (path relative to the repo, use_stl, input bytes)
PROGRAMS = [
    ('programs/print_tests/cat.fj', True, b'Hi!\n\x00ab'),
    ('programs/print_tests/hello_world.fj', True, b''),
    ('programs/print_tests/hello_no-stl.fj', False, b''),
    ('programs/print_tests/print_as_digit.fj', True, b''),
    ('programs/sanity_checks/simple.fj', True, b''),
    ('programs/sanity_checks/testbit.fj', True, b''),
    ('programs/sanity_checks/not.fj', True, b''),
    ('programs/sanity_checks/rep.fj', True, b''),
    ('programs/simple_math_checks/ncmp.fj', True, b''),
    ('programs/print_tests/hexprint.fj', True, b''),
]
MAX_OPS = 6000
_cache = {}


def _tree():
    h = hashlib.sha256()
    root = build.REPO / 'flipjump'
    for p in sorted(root.rglob('*')):
        if p.suffix in ('.py', '.fj', '.json') and p.is_file():
            h.update(str(p.relative_to(root)).encode())
            h.update(p.read_bytes())
    return h.hexdigest()[:16]


def _assemble(rel, stl, w):
    import flipjump
    from flipjump.fjm.fjm_reader import Reader
    from flipjump.fjm.fjm_consts import FJMVersion
    from flipjump.utils.functions import load_debugging_labels
    from sim import case as C
    d = C.scratch_dir()
    out, dbg = d / 'rp.fjm', d / 'rp.fjd'
    with contextlib.redirect_stdout(io.StringIO()):
        flipjump.assemble([build.REPO / rel], out, memory_width=w, use_stl=stl, print_time=False,
                          fjm_version=FJMVersion.NormalVersion, debugging_file_path=dbg)
    rd = Reader(out)
    segs = []
    for s in rd.memory_segments:
        st, n = s.segment_start, s.segment_length
        present = [a for a in range(st, min(st + n, st + 200000)) if a in rd.memory]
        dlen = (max(present) - st + 1) if present else 0
        dlen += dlen & 1
        dlen = min(dlen, n)
        segs.append({'start': st, 'length': n, 'data': [rd.memory.get(st + i, 0) for i in range(dlen)]})
    labels = load_debugging_labels(dbg)
    return {'segments': segs, 'labels': labels}


def get(rel, stl, w):
    """the assembled program as {'segments', 'labels'} (memoised per source-tree hash on disk and in the process)"""
    key = (rel, w)
    if key in _cache:
        return _cache[key]
    tree = os.environ.get('VERIF_TREE_HASH') or _tree()
    os.environ['VERIF_TREE_HASH'] = tree
    cdir = kernel.SCRATCH_ROOT / 'realprog' / tree
    cdir.mkdir(parents=True, exist_ok=True)
    f = cdir / (rel.replace('/', '_') + f'.w{w}.json')
    if f.exists():
        try:
            _cache[key] = json.loads(f.read_text())
            return _cache[key]
        except ValueError:
            pass
    try:
        res = _assemble(rel, stl, w)
    except Exception as e:  # a program that does not assemble at this width is simply not used
        res = {'error': type(e).__name__}
    tmp = f.with_suffix(f'.{os.getpid()}.tmp')
    tmp.write_text(json.dumps(res))
    os.replace(tmp, f)
    _cache[key] = res
    return res


def real_case(rng, widths=(32, 64)):
    """a simulator case built from a real program (None if the drawn program does not assemble at the width)"""
    rel, stl, inp = rng.choice(PROGRAMS)
    w = rng.choice(widths) if stl else rng.choice([16, 32, 64])
    prog = get(rel, stl, w)
    if 'error' in prog:
        return None, None
    data = inp
    if inp and rng.random() < 0.5:
        data = bytes(rng.randrange(256) for _ in range(rng.choice([0, 1, 3, 8])))
    bits = [(b >> k) & 1 for b in data for k in range(8)]
    if bits and rng.random() < 0.3:
        bits = bits[:rng.randrange(len(bits))]       # input closed in the middle of a byte
    case = {'w': w, 'segments': [dict(s) for s in prog['segments']], 'version': rng.choice([0, 1, 2, 3]),
            'lzma_preset': 0, 'input_bits': bits, 'script': {}, 'fault': None, 'probe_words': [],
            'tags': ['real_program'], 'program': rel}
    return case, prog['labels']
