"""Fresh-interpreter reference for C13: reads a JSON configuration on stdin, writes the sources into ITS OWN
temporary directory, assembles once in this brand-new process, prints the sha256 of the .fjm and .fjd bytes."""
import contextlib
import hashlib
import io
import json
import os
import sys
import tempfile
from pathlib import Path


def main():
    cfg = json.loads(sys.stdin.read())
    repo = os.environ.get('VERIF_REPO_PY')
    if repo:
        sys.path.insert(0, repo)
    from flipjump.assembler import assembler
    from flipjump.fjm.fjm_writer import Writer
    from flipjump.fjm.fjm_consts import FJMVersion
    from flipjump.utils.functions import get_stl_paths
    td = Path(tempfile.mkdtemp(prefix='fjverif-ref-'))
    try:
        tuples = []
        stl_paths = get_stl_paths()
        libdir = td / 'lib'
        for short, kind, ref in cfg['files']:
            if kind == 'stl':
                tuples.append((short, stl_paths[ref]))
            elif kind == 'lib':
                # the private cacheable library of C13's library mode: [name, text]
                from flipjump.assembler import fj_parser
                libdir.mkdir(exist_ok=True)
                p = libdir / ref[0]
                p.write_text(ref[1])
                fj_parser._STL_DIR = libdir.resolve()
                tuples.append((short, p))
            else:
                p = td / f'u{len(tuples)}.fj'
                p.write_text(ref)
                tuples.append((short, p))
        out = td / 'o.fjm'
        dbg = td / 'o.fjd' if cfg['debug'] else None
        wr = Writer(out, cfg['w'], FJMVersion(cfg['version']), flags=cfg.get('flags', 0),
                    lzma_preset=cfg.get('preset', 6)) if cfg['version'] == 3 else \
            Writer(out, cfg['w'], FJMVersion(cfg['version']), flags=cfg.get('flags', 0))
        res = {}
        try:
            with contextlib.redirect_stdout(io.StringIO()):
                assembler.assemble(tuples, cfg['w'], wr, warning_as_errors=cfg['werror'], debugging_file_path=dbg,
                                   print_time=False)
            res['fjm'] = hashlib.sha256(out.read_bytes()).hexdigest()
            res['fjd'] = hashlib.sha256(dbg.read_bytes()).hexdigest() if dbg else None
        except Exception as e:  # noqa
            res['error'] = type(e).__name__
        print('REF ' + json.dumps(res))
    finally:
        import shutil
        shutil.rmtree(td, ignore_errors=True)


if __name__ == '__main__':
    main()
