"""C07 - results and final memory do not depend on engine or storage layout (DESIGN.md 5.2)

The knob swarm: every case is run under 8-14 engine configurations (flat window sizes around segment edges and
executed ops, forced paged, failed flat allocation, ring lengths, measurement loop, the two python loops, observer
on/off) and each must equal the reference machine in output, cause, count, fault address, last-ops list and final
memory of every touched word.
"""
from checks import _engine_base as B
from checks._engine_base import setup_main, setup_worker, config_class, COMPONENTS, TIME_NOTE  # noqa
from sim import enginesim
from sim import gen as G

ID = 'C07'
LEVEL = 'exploration'
FIELDS = ('outcome', 'ops', 'last_ops', 'log', 'final')
RULE = ('cases from sim/gen.py with the geometry bias turned up (page edges, same page-cache slot, flat-window '
        'straddles, far segments, top of the address space, the w=64 fill constant); per case 8-14 engine '
        'configurations drawn from the storage knobs; every configuration is compared with the reference machine. '
        'non-trivial: model executes >= 2 ops; distinct = distinct digest of (case incl. its configurations, outcome)')
STATE_MEASURE = 'distinct (storage mode / loop clone class, w, termination cause, probe flags) tuples'
ASSUMPTIONS = ['reference machine = meaning of the statement', 'segments inside the w-bit address space',
               '<= 2000 ops, <= a few hundred dense words per image', 'gcc -O2 build of the working-tree _fjcore.c']


def plan(tier):
    if tier == 'thorough':
        return {'cases': 700000, 'chunk': 500, 'budget_s': 1200, 'case_timeout_s': 30, 'minimise_budget_s': 240}
    return {'cases': 45000, 'chunk': 200, 'budget_s': 70, 'case_timeout_s': 30, 'minimise_budget_s': 90}


def knob_configs(rng, case, m):
    w = case['w']
    ww = w.bit_length() - 1
    edges = set()
    for s in case['segments']:
        edges.update((s['start'], s['start'] + s['length'], s['start'] + len(s['data'])))
    for ip, f in zip(m.ip_trace[:32], m.f_trace[:32]):
        edges.update((ip >> ww, (ip >> ww) + 1, (ip >> ww) + 2, f >> ww))
    cands = set()
    for e in edges:
        for d in (-1, 0, 1):
            if 1 <= e + d < (1 << 24):
                cands.add(e + d)
    cands.update((1, 2, 3, 5, G.PAGE - 1, G.PAGE, G.PAGE + 1))
    cands = sorted(cands)
    rings = [None, None, 0, 1, 2, 7, 10]
    probes = ['touched', 'touched', 'off']
    cfgs = [{'engine': 'native'}, {'engine': 'native', 'env': {'FLIPJUMP_NO_FLAT': '1'}}]
    pool = []
    for fmw in rng.sample(cands, min(len(cands), rng.randint(3, 5))):
        pool.append({'engine': 'native', 'flat_max_words': fmw})
    if rng.random() < 0.5:
        pool.append({'engine': 'native', 'env': {'FLIPJUMP_FLAT_MAX_WORDS': str(rng.choice(cands))}})
    pool.append({'engine': 'native', 'env': {'FLIPJUMP_TEST_FLAT_ALLOC_FAIL': '1'}})
    pool.append({'engine': 'native', 'env': {'FLIPJUMP_MEASURE_SPECULATION': '1'}})
    pool.append({'engine': 'native', 'env': {'FLIPJUMP_MEASURE_SPECULATION': '1', 'FLIPJUMP_NO_FLAT': '1'}})
    pool.append({'engine': 'native', 'last_ops': rng.choice([1, 2, 7, 10])})
    pool.append({'engine': 'native', 'last_ops': rng.choice([1, 2, 7, 10]), 'env': {'FLIPJUMP_NO_FLAT': '1'}})
    pool.append({'engine': 'native', 'last_ops': rng.choice([0, 1, 3]), 'flat_max_words': rng.choice(cands)})
    pool.append({'engine': 'fast', 'last_ops': rng.choice(rings)})
    pool.append({'engine': 'featured', 'last_ops': rng.choice(rings)})
    rng.shuffle(pool)
    cfgs += pool[:rng.randint(6, 12)]
    for c in cfgs:
        c['probe'] = rng.choice(probes)
    return cfgs


def gen(rng, index, tier):
    if index % 20 == 11:
        from sim import realprog
        case, _labels = realprog.real_case(rng)
        if case is None:
            return None
        m, obs = enginesim.pre_run(rng, case, cap=realprog.MAX_OPS)
        if m is None:
            return None
        case['configs'] = knob_configs(rng, case, m)[:5]
        case['model_cap'] = realprog.MAX_OPS
        return case
    case, meta = G.gen_case(rng, 'c07')
    case['tags'] = meta['tags']
    m, obs = enginesim.pre_run(rng, case)
    if m is None:
        return None
    case['configs'] = knob_configs(rng, case, m)
    return case


def run(case):
    violations, info = enginesim.evaluate(case, FIELDS, model_cap=case.get('model_cap', enginesim.MODEL_CAP))
    exp = next(iter(info['expected'].values()))
    return B.result_from(case, violations, info, exp, info['model'])


def minimise(case, violation):
    return enginesim.minimise(case, violation, FIELDS, model_cap=case.get('model_cap', enginesim.MODEL_CAP),
                              budget=120 if case.get('model_cap') else 400)


def signature(case, violation):
    return enginesim.signature(case, violation)


def adequacy(tier, agg):
    return B.adequacy(tier, agg, B.REQUIRED_PROBES + ['storage_flat', 'storage_hybrid', 'storage_paged', 'beyond_default_window'])
