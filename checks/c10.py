"""C10 - reading an .fjm is total; torn or damaged files are rejected (DESIGN.md 5.4)

storagesim: the REAL Writer writes through the simulated disk; the byte stream is then torn at EVERY byte
(crash / full disk / kill during write_to_file), has 512/64-byte blocks lost, has every header and segment-table
field corrupted from a value table, and has its payload damaged; the REAL Reader (+ assert_runnable, + fjm_run.run)
opens every variant from the simulated disk.
"""
import random
import struct
import time
import tracemalloc

from sim import kernel, simfs

ID = 'C10'
LEVEL = 'fault_enumeration'
RULE = ('files: seeded writer call sequences (1-5 segments, zero tails on both sides of the 1000-word threshold, shared '
        'data in v0/v1, unreferenced trailing data, empty pool, w in {8,16,32,64}, versions 0-3, lzma presets) and a few '
        'real assembler outputs; per file: every strict prefix (complete for <= 4 KiB, structural boundaries + 256 seeded '
        'beyond), lost 64/512-byte blocks, every single write() call of the writer lost, every single-field corruption of header and segment table from a value table, '
        'seeded payload bit flips and splices, stale tails after the intact file (1 byte .. 1.1 MB), a time-scaling probe (file + n vs 2n filler bytes). evaluations = variants opened; non-trivial: a variant that differs from the '
        'intact file; distinct = distinct (file digest, variant) pairs')
STATE_MEASURE = 'distinct (version, w, structural region of the cut / corrupted field, reader verdict) tuples'
ASSUMPTIONS = ['a write torn by a crash leaves a prefix of the intended bytes (write_to_file is sequential, no fsync, no '
               'rename); lost blocks read back as zeros', 'the image of the intact file as decoded by the reader is the '
               'baseline (round-trip correctness is C06, not claimed)', 'damage that leaves header, table and payload '
               'mutually consistent is undetectable without checksums: only totality is judged for it']
COMPONENTS = {'real': ['flipjump.fjm.fjm_writer.Writer.write_to_file', 'flipjump.fjm.fjm_reader.Reader + assert_runnable',
                       'flipjump.interpreter.fjm_run.run (load path)', 'lzma'],
              'stub': ['the disk for the writer and for the torn-prefix enumeration (sim/simfs.py SimFS, installed by module-level name '
                       'injection of `open`); field corruptions, lost blocks and payload damage are opened from REAL files so that the '
                       'buffered reader behaves as in production'],
              'oracle': ['independent struct-level parser of the format in this file (named inconsistencies)',
                         'image of the intact file']}
TIME_NOTE = 'the unit of simulated time is one file operation on the simulated disk; crash points are byte offsets'

FS = None


def setup_main():
    pass


def setup_worker():
    global FS
    from sim import build
    import sys
    if 'flipjump.interpreter.fjm_run' not in sys.modules:
        build.install_fjcore('plain')
    FS = simfs.SimFS()
    FS.install()
    # a reader that sizes an allocation from a damaged length field must fail as a MemoryError inside the case (a
    # totality violation with a replay file), not take the machine's memory and stall the whole check
    import resource
    soft, hard = resource.getrlimit(resource.RLIMIT_AS)
    cap = 6 << 30
    if soft == resource.RLIM_INFINITY or soft > cap:
        resource.setrlimit(resource.RLIMIT_AS, (cap, hard))


def config_class(cfg):
    return None


def plan(tier):
    if tier == 'thorough':
        return {'cases': 40000, 'chunk': 40, 'budget_s': 1200, 'case_timeout_s': 90, 'minimise_budget_s': 60}
    return {'cases': 2600, 'chunk': 20, 'budget_s': 80, 'case_timeout_s': 90, 'minimise_budget_s': 30}


# ------------------------------------------------------------------------------------------ generation

def gen(rng, index, tier):
    if index % 12 == 5:
        from sim import corpus
        name = rng.choice(sorted(corpus.OK))
        stl = corpus.OK[name][0]
        return {'kind': 'assembled', 'program': name, 'w': rng.choice([32, 64]) if stl else rng.choice([8, 16, 32, 64]),
                'version': rng.choice([0, 1, 2, 3, 3]), 'preset': 6, 'calls': [], 'seed': rng.getrandbits(32)}
    if index % 96 == 11:
        # a BIG payload (more than 1 MiB once decoded; highly compressible, so the version-3 file itself is small):
        # decoders that work in bounded steps / chunks behave differently beyond such sizes
        w = 64
        # (131072 / 262144 / 1310720 words are exactly 1, 2 and 10 MiB of decoded data: a decoder that works in
        #  steps meets the end of the stream exactly at a step boundary)
        nwords = rng.choice([132000, 140000, 150000, 131072, 262144, 1310720 if rng.random() < 0.5 else 131072])
        calls = [['pdata', nwords, rng.choice([1, 5, 64]), rng.getrandbits(16)],
                 ['seg', 0, nwords + rng.choice([0, 2, 1000]), 0, nwords]]
        return {'w': w, 'version': rng.choice([3, 3, 3, 0, 1, 2]), 'preset': rng.choice([0, 6]), 'calls': calls,
                'seed': rng.getrandbits(32), 'kind': 'writer', 'big': True}
    w = rng.choice([8, 16, 32, 64])
    version = rng.choice([0, 1, 2, 3])
    mw = 1 << (w - (w.bit_length() - 1))
    calls = []
    nseg = rng.choice([1, 1, 2, 3, 5])
    pool = 0
    next_start = 0
    shared = version in (0, 1) and rng.random() < 0.3
    first_range = None
    for i in range(nseg):
        dlen = rng.choice([0, 2, 2, 4, 8, 16, 40]) if i else rng.choice([2, 4, 8, 16, 40])
        tail = rng.choice([0, 0, 2, 10, 998, 1000, 1002, 5000])
        length = dlen + tail
        if length == 0:
            length = 2
        start = next_start
        if start + length > mw:
            break
        if shared and first_range is not None and rng.random() < 0.6 and first_range[1] >= dlen:
            ds = first_range[0]
        else:
            data = [rng.getrandbits(w) if rng.random() < 0.5 else rng.randrange(0, 4 * w) for _ in range(dlen)]
            calls.append(['data', data])
            ds = pool
            pool += dlen
            if first_range is None:
                first_range = (ds, dlen)
        calls.append(['seg', start, length, ds, dlen])
        next_start = start + length + rng.choice([0, 2, 64, 1 << 14]) * (1 if w > 16 else 0) + rng.choice([0, 2])
        next_start += next_start & 1
    if rng.random() < 0.2:
        calls.append(['data', [rng.getrandbits(w) for _ in range(rng.choice([1, 2, 5]))]])   # unreferenced trailing data
    return {'w': w, 'version': version, 'preset': rng.choice([0, 1, 6, 9]), 'calls': calls,
            'seed': rng.getrandbits(32), 'kind': 'writer'}


# ------------------------------------------------------------------------------------------ format parser (oracle)

def parse_fields(b):
    """independent struct-level parse. returns dict or None when the header/table does not fit"""
    if len(b) < 20:
        return None
    magic, w, version, nseg = struct.unpack_from('<HHQQ', b, 0)
    off = 20
    flags = reserved = 0
    if version != 0:
        if len(b) < 32:
            return None
        flags, reserved = struct.unpack_from('<QL', b, 20)
        off = 32
    return {'magic': magic, 'w': w, 'version': version, 'nseg': nseg, 'flags': flags, 'reserved': reserved,
            'table_off': off}


def named_inconsistency(b, decompressed_len=None):
    """the first named inconsistency of the file, or None. (lzma damage is not decided here.)"""
    h = parse_fields(b)
    if h is None:
        return 'truncated-header'
    if h['magic'] != 0x4A46:
        return 'bad-magic'
    if h['version'] not in (0, 1, 2, 3):
        return 'bad-version'
    if h['w'] not in (8, 16, 32, 64):
        return 'bad-width'
    if h['reserved'] != 0:
        return 'reserved-nonzero'
    end_table = h['table_off'] + 32 * h['nseg']
    if end_table > len(b):
        return 'table-longer-than-file'
    segs = [struct.unpack_from('<QQQQ', b, h['table_off'] + 32 * i) for i in range(h['nseg'])]
    wb = h['w'] // 8
    payload = len(b) - end_table
    if h['version'] == 3:
        if decompressed_len is None:
            return None           # cannot be judged without decoding
        nbytes = decompressed_len
    else:
        nbytes = payload
    if nbytes % wb:
        return 'payload-not-whole-words'
    pool = nbytes // wb
    for (st, ln, ds, dl) in segs:
        if dl % 2:
            return 'odd-data-length'
        if ds + dl > pool:
            return 'data-range-beyond-pool'
    for (st, ln, ds, dl) in segs:
        if dl > ln:
            return 'data-length-greater-than-segment-length'
    rng_ = sorted((st, st + max(ln, 0)) for st, ln, ds, dl in segs if ln > 0)
    for (a0, a1), (b0, b1) in zip(rng_, rng_[1:]):
        if b0 < a1:
            return 'overlapping-segments'
    if not any(st == 0 and ln >= 2 for st, ln, ds, dl in segs):
        return 'no-first-op'
    return None


# ------------------------------------------------------------------------------------------ run

def image_of(reader):
    segs = sorted((s.segment_start, s.segment_length) for s in reader.memory_segments)
    words = {a: v for a, v in reader.memory.items() if v != 0}
    return reader.memory_width, tuple(segs), tuple(sorted(words.items()))


_real_path = None
_run_mtime = None


_reader_kw = {}          # the Reader's documented keyword (how a RUN treats garbage words), drawn per case


def open_variant(b, measure=False, real=False):
    """(verdict, detail, cpu seconds, peak): verdict in accept / reject / wrong-exception. The time is the CPU time of
    this process, not the wall clock: a busy machine must not look like a slow reader (hangs are the watchdog's business). the Reader reads from the simulated disk, or
    (real=True) from a real file, so that the buffered reader's own behaviour on absurd read sizes is the real one."""
    global _real_path
    from flipjump.fjm.fjm_reader import Reader
    from flipjump.utils.exceptions import FlipJumpReadFjmException
    path = '/simfs/v.fjm'
    if real:
        if _real_path is None:
            from sim import case as C
            _real_path = C.scratch_dir() / 'variant.fjm'
        _real_path.write_bytes(bytes(b))
        path = _real_path
    else:
        FS.files['/simfs/v.fjm'] = bytes(b)
    t0 = time.process_time()
    peak = 0
    if measure:
        tracemalloc.start()
    try:
        try:
            r = Reader(path, **_reader_kw)
            r.assert_runnable()
            verdict, detail = 'accept', r
        except FlipJumpReadFjmException as e:
            verdict, detail = 'reject', str(e)[:80]
        except kernel.WatchdogTimeout:
            raise
        except BaseException as e:  # noqa
            verdict, detail = 'wrong-exception', f'{type(e).__name__}: {e}'[:200]
    finally:
        if measure:
            peak = tracemalloc.get_traced_memory()[1]
            tracemalloc.stop()
    return verdict, detail, time.process_time() - t0, peak


def build_file(case):
    from flipjump.fjm.fjm_writer import Writer
    from flipjump.fjm.fjm_consts import FJMVersion
    from flipjump.utils.exceptions import FlipJumpException
    FS.reset_log()
    FS.plan = None
    if case.get('kind') == 'assembled':
        import contextlib
        import io as _io
        import flipjump
        from sim import corpus, case as C
        stl, texts = corpus.OK[case['program']]
        d = C.scratch_dir() / 'c10src'
        d.mkdir(exist_ok=True)
        paths = []
        for i, t in enumerate(texts):
            p = d / f"{case['program']}_{i}.fj"
            p.write_text(t)
            paths.append(p)
        try:
            with contextlib.redirect_stdout(_io.StringIO()):
                flipjump.assemble(paths, '/simfs/f.fjm', memory_width=case['w'], use_stl=stl,
                                  fjm_version=FJMVersion(case['version']), print_time=False)
        except FlipJumpException:
            return None, None
        return FS.files['/simfs/f.fjm'], list(FS.write_calls.get('/simfs/f.fjm', []))
    try:
        wr = Writer('/simfs/f.fjm', case['w'], FJMVersion(case['version']), lzma_preset=case['preset'])
        for c in case['calls']:
            if c[0] == 'data':
                wr.add_data(list(c[1]))
            elif c[0] == 'pdata':
                # a long periodic pattern with a few odd words (kept out of the case so that replays stay small)
                _, nwords, period, salt = c
                data = [((i % period) * 2 + salt) & ((1 << case['w']) - 1) if i % 50021 else (salt * 40503 + i) &
                        ((1 << case['w']) - 1) for i in range(nwords)]
                wr.add_data(data)
            else:
                wr.add_segment(c[1], c[2], c[3], c[4])
        wr.write_to_file()
    except FlipJumpException:
        return None, None
    return FS.files['/simfs/f.fjm'], list(FS.write_calls.get('/simfs/f.fjm', []))


FIELD_VALUES = [0, 1, 2, 3, 5, 1 << 16, 1 << 32, 1 << 63, (1 << 64) - 1, 'minus1', 'plus1', 'plus2', 'double']


def field_variants(F, h):
    """(name, bytes) for every single-field corruption of header and segment table"""
    out = []

    def variants_of(off, fmt, name):
        size = struct.calcsize(fmt)
        cur = struct.unpack_from(fmt, F, off)[0]
        maxv = (1 << (8 * size)) - 1
        for v in FIELD_VALUES:
            if v == 'minus1':
                nv = cur - 1
            elif v == 'plus1':
                nv = cur + 1
            elif v == 'plus2':
                nv = cur + 2
            elif v == 'double':
                nv = cur * 2 + 1
            else:
                nv = v
            nv &= maxv
            if nv == cur:
                continue
            b = bytearray(F)
            struct.pack_into(fmt, b, off, nv)
            out.append((f'{name}={v}', bytes(b)))
    variants_of(0, '<H', 'magic')
    variants_of(2, '<H', 'width')
    variants_of(4, '<Q', 'version')
    variants_of(12, '<Q', 'segment_num')
    if h['version'] != 0:
        variants_of(20, '<Q', 'flags')
        variants_of(28, '<L', 'reserved')
    for i in range(min(h['nseg'], 6)):
        base = h['table_off'] + 32 * i
        for k, nm in enumerate(('seg_start', 'seg_length', 'data_start', 'data_length')):
            variants_of(base + 8 * k, '<Q', f'{nm}[{i}]')
    return out


def region_of(b_off, h, n):
    if b_off < 20:
        return 'header'
    if b_off < h['table_off']:
        return 'extension'
    if b_off < h['table_off'] + 32 * h['nseg']:
        return 'table'
    return 'payload'


def run(case):
    from flipjump.fjm.fjm_reader import Reader
    import lzma
    rng = random.Random(case['seed'])
    # the reader's only option says how a run treats words outside every segment; what a damaged file is does not depend
    # on it. Half of the cases open every variant with one of the non-default settings.
    from flipjump.fjm.fjm_reader import GarbageHandling
    mode = random.Random(case['seed'] ^ 0x6a7b).choice([None, None, None, 'Stop', 'SlowRead', 'OnlyWarning', 'Continue',
                                                         'Continue'])
    _reader_kw.clear()
    if mode is not None:
        _reader_kw['garbage_handling'] = GarbageHandling[mode]
    F, write_calls = build_file(case)
    probes = {'reader_option_' + str(mode): 1}
    if F is None:
        return {'violations': [], 'probes': {'writer_refused': 1}, 'faults': {}, 'states': [], 'steps': 0,
                'nontrivial': False, 'digest': kernel.digest_of([case, 'refused'])}
    n = len(F)
    h = parse_fields(F)
    v0, d0, t0, _ = open_variant(F)
    if v0 == 'wrong-exception':
        # (that the intact file is refused is a round-trip matter, C06; that opening it raises a FOREIGN exception is not)
        return {'violations': [{'clause': 'totality', 'config': None, 'config_name': 'intact-file', 'variant': 'intact-file',
                                'expected': 'Reader or FlipJumpReadFjmException', 'observed': d0}],
                'probes': {}, 'faults': {}, 'states': [], 'steps': 1, 'nontrivial': True,
                'digest': kernel.digest_of([case, 'intact-wrong-exception'])}
    if v0 != 'accept':
        # the intact file does not load: a round-trip matter (C06), not judged here
        return {'violations': [], 'probes': {'baseline_not_loadable': 1}, 'faults': {}, 'states': [], 'steps': 0,
                'nontrivial': False, 'digest': kernel.digest_of([case, 'baseline'])}
    base_image = image_of(d0)
    violations = []
    faults = {}
    states = set()
    evals = 0

    def viol(clause, variant, expected, observed):
        if len(violations) < 3:
            violations.append({'clause': clause, 'config': None, 'config_name': variant, 'variant': variant,
                               'expected': expected, 'observed': observed})

    def count(kind, fired=True):
        cur = faults.setdefault(kind, [0, 0])
        cur[0] += 1
        cur[1] += 1 if fired else 0

    time_bound = 1.0 + n / 20000.0
    n_words_big = case['calls'][0][1] if case.get('big') else 0
    if n_words_big > 300000:
        time_bound += n_words_big / 100000.0        # (the decoded size, not the compressed one, is what costs)

    # ---- 1. every strict prefix (crash / full disk / kill at byte b)
    if n <= 4096 and not case.get('big'):
        cuts = range(n)
    elif case.get('big') and n <= 16384:
        # every open decodes more than a megabyte: the ends, the write boundaries and a sample
        cs = set(range(0, 12)) | set(range(max(0, n - 48), n)) | {rng.randrange(n) for _ in range(40)}
        if n_words_big > 300000:
            cs = set(range(max(0, n - 6), n))           # (every open decodes ten megabytes)
        cs |= {int(n * f) for f in (0.1, 0.25, 0.5, 0.75, 0.9, 0.99)}
        cuts = sorted(c for c in cs if 0 <= c < n)
    else:
        cs = set(range(0, 64)) | set(range(max(0, n - 32), n))
        acc = 0
        for wc in write_calls:
            acc += wc
            cs.update((acc - 1, acc, acc + 1))
        for _ in range(256):
            cs.add(rng.randrange(n))
        cuts = sorted(c for c in cs if 0 <= c < n)
    for b in cuts:
        verdict, detail, dt, _ = open_variant(F[:b])
        evals += 1
        count('torn-write@byte')
        states.add(f"v{case['version']}|w{case['w']}|cut:{region_of(b, h, n)}|{verdict}")
        if verdict == 'wrong-exception':
            viol('totality', f'prefix[:{b}]', 'Reader or FlipJumpReadFjmException', detail)
        elif verdict == 'accept' and image_of(detail) != base_image:
            viol('torn-file-accepted', f'prefix[:{b}]', 'rejected, or the same image as the intact file',
                 'accepted with a different image')
        if dt > time_bound and open_variant(F[:b])[2] > time_bound:      # (re-measured: not a stall of the machine)
            viol('time', f'prefix[:{b}]', f'<= {time_bound:.2f}s', f'{dt:.2f}s')
    if case.get('big'):
        # (the other damage kinds are exercised on the small files; here every open costs a megabyte of decoding)
        probes['big_payload_file'] = 1
        return {'violations': violations, 'probes': probes, 'faults': faults, 'states': states, 'steps': evals,
                'nontrivial': evals > 10, 'digest': kernel.digest_of([case, sorted(states), len(violations)])}
    # ---- 2. lost blocks (zero-filled)
    for bs in (64, 512):
        if n > bs:
            for _ in range(3):
                k = rng.randrange(0, (n + bs - 1) // bs)
                b = bytearray(F)
                b[k * bs:(k + 1) * bs] = bytes(min(bs, n - k * bs))
                b = bytes(b)
                if b == F:
                    continue
                verdict, detail, dt, _ = open_variant(b, real=True)
                evals += 1
                count(f'lost-block-{bs}')
                states.add(f"v{case['version']}|w{case['w']}|lost:{region_of(k * bs, h, n)}|{verdict}")
                _judge_damaged(b, verdict, detail, f'lost-block{bs}@{k}', viol)
    # ---- 2b. one whole write() call of the writer lost (a reordered / dropped write: its range reads back as zeros)
    acc = 0
    for wi, wc in enumerate(write_calls):
        if wc and acc + wc <= n:
            b = bytearray(F)
            b[acc:acc + wc] = bytes(wc)
            b = bytes(b)
            if b != F:
                verdict, detail, dt, _ = open_variant(b, real=True)
                evals += 1
                count('lost-write-call')
                states.add(f"v{case['version']}|w{case['w']}|lostwrite:{region_of(acc, h, n)}|{verdict}")
                _judge_damaged(b, verdict, detail, f'lost-write#{wi}', viol)
        acc += wc
    # ---- 3. every single-field corruption
    for name, b in field_variants(F, h):
        verdict, detail, dt, peak = open_variant(b, measure=True, real=True)
        evals += 1
        count('field-corruption')
        states.add(f"v{case['version']}|w{case['w']}|field:{name.split('=')[0].split('[')[0]}|{verdict}")
        _judge_damaged(b, verdict, detail, name, viol)
        decomp = 0
        mem_bound = 40_000_000 + 400 * (len(b) + 64 * _decompressed_len(b)) + 200_000 * min(h['nseg'], 64)
        if peak > mem_bound:
            viol('allocation', name, f'peak <= {mem_bound} bytes (40 MB for the lzma decoder + linear in file size)', f'{peak} bytes')
        if dt > time_bound * 4 and open_variant(b, real=True)[2] > time_bound * 4:
            viol('time', name, f'<= {time_bound * 4:.2f}s', f'{dt:.2f}s')
    # ---- 3b. coordinated damage of the segment table (several entries at once - no writer produces these): two
    #          non-empty entries made to overlap, with an EMPTY entry (or a copy of an entry) placed before, between or
    #          after them in the table; a table listing the same segment twice
    t_off = h['table_off']
    entries = [list(struct.unpack_from('<QQQQ', F, t_off + 32 * i)) for i in range(h['nseg'])] if t_off + 32 * h['nseg'] <= n else []
    nonempty = [i for i, e in enumerate(entries) if e[1] >= 2]
    if nonempty:
        def rebuild(table):
            head = bytearray(F[:t_off])
            struct.pack_into('<Q', head, 12, len(table))
            return bytes(head) + b''.join(struct.pack('<QQQQ', *e) for e in table) + F[t_off + 32 * h['nseg']:]
        i = rng.choice(nonempty)
        a = entries[i]
        variants = []
        over = [a[0] + rng.choice([0, 1, 2, a[1] - 1]), max(2, a[1]), a[2], a[3]]     # overlaps entry i
        for zstart in (a[0], a[0] + 1, over[0], over[0] + 1):
            z = [zstart, 0, 0, 0]                                                      # an empty entry
            for order in ([z, over], [over, z]):
                pos = rng.randrange(len(entries) + 1)
                variants.append(('empty+overlap', entries[:pos] + order + entries[pos:]))
            variants.append(('empty-between', entries[:i + 1] + [z, over] + entries[i + 1:]))
        variants.append(('duplicate-entry', entries + [list(a)]))
        variants.append(('only-empty-extra', entries + [[a[0] + 1, 0, 0, 0]]))
        rng.shuffle(variants)
        for nm, table in variants[:6]:
            b = rebuild(table)
            verdict, detail, dt, _ = open_variant(b, real=True)
            evals += 1
            count('table-multi-entry')
            states.add(f"v{case['version']}|w{case['w']}|multi:{nm}|{verdict}")
            _judge_damaged(b, verdict, detail, 'table:' + nm, viol)
    # ---- 4. payload damage
    pay_off = h['table_off'] + 32 * h['nseg']
    if n > pay_off:
        for _ in range(12):
            b = bytearray(F)
            r = rng.random()
            if r < 0.6:
                pos = rng.randrange(pay_off, n)
                b[pos] ^= 1 << rng.randrange(8)
            elif r < 0.8:
                pos = rng.randrange(pay_off, n)
                del b[pos:pos + rng.choice([1, 2, 3, 8])]
            else:
                pos = rng.randrange(pay_off, n + 1)
                b[pos:pos] = bytes(rng.randrange(256) for _ in range(rng.choice([1, 2, 3, 8])))
            b = bytes(b)
            verdict, detail, dt, _ = open_variant(b, real=True)
            evals += 1
            count('payload-damage')
            states.add(f"v{case['version']}|w{case['w']}|payload|{verdict}")
            _judge_damaged(b, verdict, detail, 'payload-damage', viol)
    # ---- 4b. a stale tail after the intact file (a longer older file overwritten in place, a padded transfer ...)
    tails = [b'\x00', bytes(rng.randrange(256) for _ in range(rng.choice([1, 7, 100]))), F, b'\xff' * 64]
    if rng.random() < 0.25:
        tails.append(bytes(rng.randrange(256) for _ in range(70000)))
    if rng.random() < 0.06:
        tails.append(rng.randbytes((1 << 20) + rng.choice([1, 4096, 99999])))
    for tail in tails:
        b = F + tail
        verdict, detail, dt, _ = open_variant(b, real=True)
        evals += 1
        count('stale-tail')
        states.add(f"v{case['version']}|w{case['w']}|tail{min(len(tail), 99999) // 1000}k|{verdict}")
        if verdict == 'wrong-exception':
            viol('totality', f'tail+{len(tail)}', 'Reader or FlipJumpReadFjmException', detail)
        elif verdict == 'accept' and image_of(detail) != base_image:
            viol('tail-changes-image', f'tail+{len(tail)}', 'rejected, or the same image as the intact file',
                 'accepted with a different image')
        if dt > 1.0 + len(b) / 20000.0 and open_variant(b, real=True)[2] > 1.0 + len(b) / 20000.0:
            viol('time', f'tail+{len(tail)}', 'linear in file size', f'{dt:.2f}s for {len(b)} bytes')
    # ---- 4c. scaling: a file four times as long must not take sixteen times as long (no super-linear reader). CPU
    #          time, a wide gap between the two sizes and a threshold between linear (4x) and quadratic (16x; 8.5x measured on the defect this probe found):
    #          neither a busy machine nor the linear part of the cost can tip it
    if case['seed'] % 6 == 0:
        for fill in (b'\x00', b'\x01'):
            n1 = 96 * 1024
            _, _, t1, _ = open_variant(F + fill * n1, real=True)
            _, _, t4, _ = open_variant(F + fill * (4 * n1), real=True)
            evals += 2
            count('scaling-probe')
            if t4 > 0.6 and t4 > 6 * max(t1, 0.02):
                # measured once more; keep the slower t(n) and the faster t(4n)
                t1 = max(t1, open_variant(F + fill * n1, real=True)[2])
                t4 = min(t4, open_variant(F + fill * (4 * n1), real=True)[2])
            if t4 > 0.6 and t4 > 6 * max(t1, 0.02):
                viol('time-superlinear', f'tail {fill!r}*n', f't(4n) <= 6 t(n) (n={n1} bytes took {t1:.2f}s of CPU)',
                     f't(4n) = {t4:.2f}s')
    # ---- 5. run() agrees with the reader on a sample. the variants REPLACE the intact file in place: same path, and
    #         for the same-size ones the same size and modification time (a torn rewrite, a flipped bit on the disk)
    bad_magic = bytes([F[0] ^ 0x40]) + F[1:]
    flipped_len = bytearray(F)
    if h['nseg']:
        struct.pack_into('<Q', flipped_len, h['table_off'] + 24, struct.unpack_from('<Q', F, h['table_off'] + 24)[0] | (1 << 40))
    for b, nm in ((F, 'intact'), (bad_magic, 'in-place-bad-magic'), (bytes(flipped_len), 'in-place-data-length'),
                  (F[:max(0, n - 1)], 'prefix-1'), (F[:pay_off], 'no-payload'), (F, 'intact-again')):
        evals += 1
        r = _run_agrees(b)
        if r is not None:
            viol('run-vs-reader', nm, r[0], r[1])
    probes['variants'] = evals
    probes[f"v{case['version']}"] = 1
    probes[f"w{case['w']}"] = 1
    return {'violations': violations, 'probes': probes, 'faults': faults, 'states': states, 'steps': evals,
            'nontrivial': True, 'digest': kernel.digest_of([case, [[v['clause'], v['variant']] for v in violations],
                                                            sorted(states)])}


def _decompressed_len(b):
    import lzma
    h = parse_fields(b)
    if h is None or h['version'] != 3:
        return 0
    off = h['table_off'] + 32 * h['nseg']
    if off > len(b):
        return 0
    try:
        return len(lzma.decompress(b[off:], format=lzma.FORMAT_RAW, filters=[{'id': lzma.FILTER_LZMA2}]))
    except Exception:
        return 0


def _judge_damaged(b, verdict, detail, name, viol):
    if verdict == 'wrong-exception':
        viol('totality', name, 'Reader or FlipJumpReadFjmException', detail)
        return
    h = parse_fields(b)
    dl = None
    if h is not None and h['version'] == 3:
        off = h['table_off'] + 32 * h['nseg']
        if off <= len(b):
            import lzma
            try:
                dl = len(lzma.decompress(b[off:], format=lzma.FORMAT_RAW, filters=[{'id': lzma.FILTER_LZMA2}]))
            except Exception:
                dl = None
    inc = named_inconsistency(b, dl)
    if inc is not None and verdict == 'accept':
        viol('inconsistent-file-accepted', name + ':' + inc, f'rejected ({inc})', 'accepted')


class _StopDevice:
    def attach_memory(self, dm):
        pass

    def read_bit(self):
        raise KeyboardInterrupt()

    def write_bit(self, bit):
        raise KeyboardInterrupt()

    def get_output(self, **kw):
        return b''


def _run_agrees(b):
    """fjm_run.run on the variant: a file the reader rejects is rejected by run with the read error before any op;
    a file it accepts never makes run raise anything but a FlipJumpException"""
    import os
    from flipjump.interpreter import fjm_run
    from flipjump.utils.exceptions import FlipJumpReadFjmException, FlipJumpException
    verdict, detail, _, _ = open_variant(b, real=True)
    # same path as the previous variant; keep the modification time of the first one (an in-place damage does not
    # announce itself through the file's metadata)
    global _run_mtime
    st0 = os.stat(_real_path)
    if _run_mtime is None:
        _run_mtime = (st0.st_atime_ns, st0.st_mtime_ns)
    os.utime(_real_path, ns=_run_mtime)
    os.environ['FLIPJUMP_NO_NATIVE'] = '1'     # python fast loop: the case watchdog can always stop it
    try:
        # the short wall limit only exists to stop programs that run on; when it fires on a file that must be rejected
        # the machine may simply have been slow to LOAD it - ask again with a generous limit before believing "ran"
        for limit in (0.2, 8.0):
            dev = _StopDevice()
            try:
                try:
                    with kernel.short_timer(limit):
                        st = fjm_run.run(_real_path, io_device=dev)
                    out = 'ran'
                except kernel.ShortStop:
                    out = 'stopped-by-timer'
            except FlipJumpReadFjmException:
                out = 'read-error'
            except FlipJumpException:
                out = 'fj-error'
            except kernel.WatchdogTimeout:
                raise
            except BaseException as e:  # noqa
                out = 'other:' + type(e).__name__
            if not (verdict == 'reject' and out == 'stopped-by-timer'):
                break
    finally:
        os.environ.pop('FLIPJUMP_NO_NATIVE', None)
    if verdict == 'reject' and out != 'read-error':
        return ('read error from run()', out)
    if verdict == 'accept' and out.startswith('other'):
        return ('run() returns or raises a FlipJumpException', out)
    return None


def minimise(case, violation):
    return case, violation


def signature(case, violation):
    v = violation.get('variant') or ''
    inc = v.split(':')[-1] if violation.get('clause') == 'inconsistent-file-accepted' else None
    return {'clause': violation.get('clause'), 'config_class': None, 'inconsistency': inc,
            'version': case.get('version'), 'w': case.get('w'), 'class_key': [violation.get('clause'), inc]}
