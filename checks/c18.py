"""C18 - a device failure or interrupt stops the run at a consistent point (DESIGN.md 5.7)

Fault enumeration: for each sampled program, the device fails at EVERY IO call index (and at attach), with a
library IO error, IOReadOnEOF, a foreign exception, KeyboardInterrupt, a BaseException, or a read result whose
truth value raises / is not a bool; on the three engines and native storage/ring variants.  The oracle is the
reference machine stopped at the corresponding micro-step.
"""
import copy

from checks import _engine_base as B
from checks._engine_base import setup_main, setup_worker, config_class, COMPONENTS, TIME_NOTE  # noqa
from sim import enginesim, case as C, kernel
from sim import gen as G

ID = 'C18'
LEVEL = 'fault_enumeration'
FIELDS = ('outcome', 'ops', 'last_ops', 'log', 'final')
RULE = ('programs from sim/gen.py that perform IO; the fault-free model run gives N device calls; one fault per run, '
        'the failing call index c enumerated 0..N-1 (N <= 48 fully, seeded beyond) plus attach_memory, the kind drawn '
        'per c from {library IO error, IOReadOnEOF (read and write side), foreign Exception, ValueError, '
        'KeyboardInterrupt, BaseException subclass, bad __bool__, non-bool truthy}; every faulted run on native (flat, '
        'forced paged, ring), fast and featured. evaluations = faulted engine runs; non-trivial: the fault fired and '
        'the program had executed >= 1 op; distinct = distinct digest of (case, plan)')
STATE_MEASURE = 'distinct (engine class, fault kind, model micro-step at the stop, outcome class) tuples'
ASSUMPTIONS = ['reference machine stopped at the micro-step of the failing call is the consistent point',
               'exceptions raised by a device callback are delivered synchronously (true for all three engines)',
               'asynchronous SIGINT is explored by the interrupt family of this check (see coverage.fault_counts)']

KINDS_READ = ['io', 'eof', 'foreign', 'value', 'kbd', 'baseexc', 'badbool', 'truthy', 'broken']
KINDS_WRITE = ['io', 'eof', 'foreign', 'value', 'kbd', 'baseexc', 'broken']


def plan(tier):
    if tier == 'thorough':
        return {'cases': 120000, 'chunk': 200, 'budget_s': 1200, 'case_timeout_s': 60, 'minimise_budget_s': 240}
    return {'cases': 9000, 'chunk': 100, 'budget_s': 80, 'case_timeout_s': 60, 'minimise_budget_s': 90}


def engine_configs(rng):
    ring = rng.choice([None, 0, 1, 3, 10])
    cfgs = [{'engine': 'native', 'last_ops': ring},
            {'engine': 'fast', 'last_ops': ring},
            {'engine': 'featured', 'last_ops': ring}]
    extra = [{'engine': 'native', 'last_ops': ring, 'env': {'FLIPJUMP_NO_FLAT': '1'}},
             {'engine': 'native', 'last_ops': rng.choice([1, 2, 10])},
             {'engine': 'native', 'last_ops': rng.choice([1, 2, 10]), 'env': {'FLIPJUMP_NO_FLAT': '1'}},
             {'engine': 'native', 'last_ops': ring, 'flat_max_words': rng.choice([1, 2, 4, 5])},
             {'engine': 'native', 'env': {'FLIPJUMP_MEASURE_SPECULATION': '1'}}]
    cfgs += rng.sample(extra, 2)
    for c in cfgs:
        c['probe'] = rng.choice(['touched', 'touched', 'off'])
    return cfgs


def gen(rng, index, tier):
    for _ in range(6):
        case, meta = G.gen_case(rng, 'c18')
        case['tags'] = meta['tags']
        m, obs = enginesim.pre_run(rng, case)
        if m is None:
            continue
        calls = [e for e in obs['log'] if e[0] in ('w', 'r')]
        if not calls:
            continue
        break
    else:
        return None
    n = len(calls)
    idxs = list(range(n)) if n <= 48 else sorted(rng.sample(range(n), 48))
    plans = []
    for c in idxs:
        kinds = KINDS_READ if calls[c][0] == 'r' else KINDS_WRITE
        for kind in rng.sample(kinds, 2):
            plans.append({'kind': kind, 'at': c, 'where': 'call'})
    if rng.random() < 0.2:
        plans.append({'kind': rng.choice(['io', 'foreign', 'kbd']), 'at': -1, 'where': 'attach'})
    case['plans'] = plans
    case['configs'] = engine_configs(rng)
    return case


def run(case):
    faults = {}
    states = set()
    violations = []
    steps = 0
    path = enginesim.image_path()
    C.write_image(case, path)
    # fault-free baseline first: a disagreement here is C01/C07's matter
    base = dict(case, fault=None)
    bv, info = enginesim.evaluate(base, FIELDS, path=path)
    exp0 = next(iter(info['expected'].values()))
    m0 = info['model']
    probes = {f: 1 for f in B.probe_flags(case, m0, exp0)}
    if bv:
        probes['baseline_disagrees_skipped'] = 1
        return {'violations': [], 'probes': probes, 'faults': {}, 'states': [], 'steps': info['steps'],
                'nontrivial': False, 'digest': kernel.digest_of([case, 'baseline'])}
    nontrivial = 0
    evals = 0
    for plan in case['plans']:
        c2 = dict(case, fault=plan)
        vs, info = enginesim.evaluate(c2, FIELDS, path=path, stop_at_first=False)
        steps += info['steps']
        exp = next(iter(info['expected'].values()))
        fired = any(e[0] == 'fault' for e in exp['log'])
        k = 'device:' + plan['kind'] + ('@attach' if plan['where'] == 'attach' else '')
        cur = faults.setdefault(k, [0, 0])
        cur[0] += len(case['configs'])
        cur[1] += len(case['configs']) if fired else 0
        evals += len(case['configs'])
        if fired and (exp.get('model_ops') or 0) >= 1:
            nontrivial += 1
        for cfg in case['configs']:
            states.add(f"{enginesim.cfg_class(cfg)}|{plan['kind']}|{exp['micro']}|{exp['outcome'][0]}:{exp['outcome'][1]}")
        for v in vs:
            v['fault'] = plan
            violations.append(v)
        if violations:
            break
    probes['faulted_runs'] = evals
    return {'violations': violations[:3], 'probes': probes, 'faults': faults, 'states': states, 'steps': steps,
            'nontrivial': nontrivial > 0,
            'digest': kernel.digest_of([case, [[v['clause'], v['config_name'], v['fault']] for v in violations]])}


def _single(case, violation):
    c = copy.deepcopy(case)
    c['fault'] = violation.get('fault')
    c['plans'] = [violation['fault']] if violation.get('fault') else []
    return c


def run_single(case):
    """used by the minimiser through enginesim (case['fault'] already set)"""
    return enginesim.evaluate(case, FIELDS)


def minimise(case, violation):
    c = _single(case, violation)
    mc, mv = enginesim.minimise(c, violation, FIELDS)
    mv = dict(mv, fault=mc.get('fault'))
    mc['plans'] = [mc['fault']] if mc.get('fault') else []
    return mc, mv


def signature(case, violation):
    c = dict(case)
    if violation.get('fault'):
        c['fault'] = violation['fault']
    sig = enginesim.signature(c, violation)
    sig['fault_kind'] = (violation.get('fault') or {}).get('kind')
    sig['exp_outcome_class'] = (violation.get('exp_outcome') or [None, None])[:2]
    return sig
