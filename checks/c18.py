"""C18 - a device failure or interrupt stops the run at a consistent point (DESIGN.md 5.7)

Fault enumeration: for each sampled program, the device fails at EVERY IO call index (and at attach), with a
library IO error, IOReadOnEOF, a foreign exception, KeyboardInterrupt, a BaseException, or a read result whose
truth value raises / is not a bool; on the three engines and native storage/ring variants.  The oracle is the
reference machine stopped at the corresponding micro-step.
"""
import copy

from checks import _engine_base as B
from checks._engine_base import config_class, TIME_NOTE  # noqa
from sim import enginesim, case as C, kernel, sigint, fjmodel, screen
from sim import gen as G

ID = 'C18'
LEVEL = 'fault_enumeration'
FIELDS = ('outcome', 'ops', 'last_ops', 'log', 'final')
RULE = ('programs from sim/gen.py that perform IO; the fault-free model run gives N device calls; one fault per run, '
        'the failing call index c enumerated 0..N-1 (N <= 48 fully, seeded beyond) plus attach_memory, the kind drawn '
        'per c from {library IO error, IOReadOnEOF (read and write side), foreign Exception, ValueError, '
        'OSError family (BrokenPipeError, TimeoutError, OSError), RuntimeError, MemoryError, StopIteration, KeyboardInterrupt, BaseException subclass, bad __bool__, non-bool truthy}; every faulted run on native (flat, '
        'forced paged, ring), fast and featured. evaluations = faulted engine runs; non-trivial: the fault fired and '
        'the program had executed >= 1 op; distinct = distinct digest of (case, plan)')
STATE_MEASURE = 'distinct (engine class, fault kind, model micro-step at the stop, outcome class) tuples'
ASSUMPTIONS = ['reference machine stopped at the micro-step of the failing call is the consistent point',
               'exceptions raised by a device callback are delivered synchronously (true for all three engines)',
               'asynchronous SIGINT is explored by the interrupt family of this check (see coverage.fault_counts)']

COMPONENTS = {'real': B.COMPONENTS['real'] + ['CPython pending-signal delivery (PyErr_SetInterrupt -> eval breaker / '
                                              'PyErr_CheckSignals)'],
              'stub': B.COMPONENTS['stub'] + ['the OS signal source (the interrupt is made pending by sim/_verifsig.c at a '
                                              'chosen bytecode instruction or device call)'],
              'oracle': B.COMPONENTS['oracle']}


def setup_main():
    B.setup_main()
    from sim import build
    build.build_helper('_verifsig')


def setup_worker():
    B.setup_worker()
    sigint.enable_monitoring()


KINDS_READ = ['io', 'eof', 'eofsub', 'eofsub', 'foreign', 'value', 'kbd', 'baseexc', 'badbool', 'truthy', 'broken', 'epipe', 'timeout', 'oserr',
              'runtime', 'memerr', 'stopiter']
KINDS_WRITE = ['io', 'eof', 'eofsub', 'foreign', 'value', 'kbd', 'baseexc', 'broken', 'epipe', 'timeout', 'oserr', 'runtime', 'memerr',
               'stopiter']


def plan(tier):
    if tier == 'thorough':
        return {'cases': 120000, 'chunk': 200, 'budget_s': 1200, 'case_timeout_s': 60, 'minimise_budget_s': 240}
    return {'cases': 9000, 'chunk': 40, 'budget_s': 60, 'case_timeout_s': 60, 'minimise_budget_s': 90}


def engine_configs(rng):
    ring = rng.choice([None, 0, 1, 3, 10])
    cfgs = [{'engine': 'native', 'last_ops': ring},
            {'engine': 'fast', 'last_ops': ring},
            {'engine': 'featured', 'last_ops': ring}]
    extra = [{'engine': 'native', 'last_ops': ring, 'env': {'FLIPJUMP_NO_FLAT': '1'}},
             {'engine': 'native', 'last_ops': rng.choice([1, 2, 10])},
             {'engine': 'native', 'last_ops': rng.choice([1, 2, 10]), 'env': {'FLIPJUMP_NO_FLAT': '1'}},
             {'engine': 'native', 'last_ops': ring, 'flat_max_words': rng.choice([1, 2, 4, 5])},
             {'engine': 'native', 'env': {'FLIPJUMP_MEASURE_SPECULATION': '1'}}]
    cfgs += rng.sample(extra, 2)
    for c in cfgs:
        c['probe'] = rng.choice(['touched', 'touched', 'off'])
        if rng.random() < 0.2:
            c['via'] = 'quickstart'      # the public wrapper (flipjump.run) instead of fjm_run.run
    return cfgs


def gen_sigint(rng, index, tier, native):
    for _ in range(8):
        w = rng.choice([8, 16, 32, 64, 64]) if not native else rng.choice([16, 32, 64, 64])
        case = sigint.build_loop_case(rng, w, long_input=native)
        if case is None:
            continue
        # must be endless: the model must still be running after 3000 ops
        bits = sigint.input_bits_of(case)
        st, rec, m = sigint.model_states_at(case, 3000, None, bits, 3000)
        if st is None:
            continue
        break
    else:
        return None
    ring = rng.choice([None, 0, 1, 3, 10])
    if native:
        case['family'] = 'native-poll'
        ncalls = len(rec.calls_op)
        case['fire_calls'] = sorted(set([0] + ([rng.randrange(ncalls)] if ncalls else [])))[:2] if ncalls else []
        case['configs'] = [rng.choice([{'engine': 'native', 'last_ops': ring},
                                       {'engine': 'native', 'last_ops': ring, 'env': {'FLIPJUMP_NO_FLAT': '1'}},
                                       {'engine': 'native', 'last_ops': rng.choice([1, 10])},
                                       {'engine': 'native', 'env': {'FLIPJUMP_MEASURE_SPECULATION': '1'}},
                                       {'engine': 'native', 'last_ops': ring, 'flat_max_words': rng.choice([2, 5, 16])}])]
        if not case['fire_calls']:
            return None
    else:
        case['family'] = 'python-instr'
        case['configs'] = [{'engine': 'fast', 'last_ops': ring}, {'engine': 'featured', 'last_ops': ring}]
        # instruction counts: every n across ~two ops' worth at 2 seeded bases + seeded singles
        bases = [1, rng.randrange(150, 1500)]
        ns = set()
        for b in bases:
            ns.update(range(b, b + (170 if tier == 'thorough' else 60)))
        for _ in range(20):
            ns.add(rng.randrange(1, 6000))
        case['instr_ns'] = sorted(ns)
        ncalls = len(rec.calls_op)
        case['fire_calls'] = sorted(set(rng.randrange(ncalls) for _ in range(3))) if ncalls else []
    return case


def check_interrupt_obs(case, cfg, obs, bits, arrival_call=None):
    """oracle for an interrupted run. returns None or (clause, expected, observed)"""
    if not obs['fired']:
        return 'not-fired'
    if obs['outcome'] != ('term', 'keyboard-interrupt', None):
        return ('termination', ['term', 'keyboard-interrupt', None], C._j(obs['outcome']))
    k = obs['ops']
    if not isinstance(k, int) or k < 0 or k > (1 << 21):
        return ('op-count', 'a count within the bounded-progress window', k)
    states, rec, m = sigint.model_states_at(case, k, cfg.get('last_ops'), bits, k + 2)
    if states is None:
        return ('op-count', 'count of an op the program executes', k)
    native = cfg['engine'] == 'native'
    if native:
        states = states[:1]                      # the native loop stops on op boundaries only
        if arrival_call is not None:
            arr = rec.calls_op[arrival_call] if arrival_call < len(rec.calls_op) else None
            if arr is not None and not (arr < k <= arr + (1 << 20)):
                return ('bounded-progress', f'stop within 2^20 ops after op {arr}', k)
    got = (obs['final'], obs['last_ops'], obs['log'])
    for label, mem, lo, log in states:
        if mem == got[0] and lo == got[1] and log == got[2]:
            return ('ok', label)
    # which component differs from every admissible state?
    for name, idx in (('memory-state', 0), ('last-ops', 1), ('device-log', 2)):
        if all((s[1], s[2], s[3])[idx] != got[idx] for s in states):
            exp = [(s[0], C._j(s[1 + idx]) if idx != 2 else s[3][-8:].hex()) for s in states[:3]]
            o = got[idx] if idx != 2 else got[idx][-8:].hex()
            return (name, {'count': k, 'admissible': C._j(exp)[:3]}, C._j(o) if idx != 0 else 'differs')
    return ('memory-state', {'count': k, 'admissible': 'no single micro-state of op k matches all components'}, 'mixed')


def run_sigint(case):
    path = enginesim.image_path()
    C.write_image(case, path)
    bits = sigint.input_bits_of(case)
    faults = {}
    states = set()
    violations = []
    steps = 0
    runs = 0
    plans = []
    for cfg in case['configs']:
        if case['family'] == 'python-instr':
            plans += [(cfg, n, -1) for n in case['instr_ns']]
        plans += [(cfg, -1, c) for c in case['fire_calls']]
    for cfg, n, c in plans:
        obs = sigint.run_interrupted(case, cfg, path, bits, instr_n=n, fire_at_call=c)
        kernel.drain_interrupt()
        runs += 1
        steps += obs['ops'] or 0
        fk = ('sigint@instr:' if n >= 0 else 'sigint@call:') + cfg['engine']
        cur = faults.setdefault(fk, [0, 0])
        cur[0] += 1
        r = check_interrupt_obs(case, cfg, obs, bits, arrival_call=c if c >= 0 else None)
        if r == 'not-fired':
            continue
        cur[1] += 1
        if r[0] == 'ok':
            states.add(f"{enginesim.cfg_class(cfg)}|{'instr' if n >= 0 else 'call'}|stop@{r[1]}")
            continue
        violations.append({'clause': r[0], 'config': cfg, 'config_name': enginesim.cfg_name(cfg), 'expected': r[1],
                           'observed': r[2], 'fault': {'kind': 'sigint', 'instr_n': n, 'fire_at_call': c},
                           'exp_outcome': ['term', 'keyboard-interrupt'], 'obs_outcome': C._j(obs['outcome'])})
        if len(violations) >= 3:
            break
    probes = {'sigint_runs': runs, 'sigint_' + case['family']: 1, f"w{case['w']}": 1}
    return {'violations': violations, 'probes': probes, 'faults': faults, 'states': states, 'steps': steps,
            'nontrivial': runs > 0,
            'digest': kernel.digest_of([case, [[v['clause'], v['config_name'], v['fault']] for v in violations],
                                        sorted(states)])}


# ---------------------------------------------------------------- F4 through the real PcIO / KeyboardIO / screen stack

class StubWindow:
    """stands in for pygame_window.PygameWindow (pygame is not installed): the window is 'closed by the user' at the
    p-th event pump, which raises KeyboardInterrupt from inside the device callback exactly like the real window"""

    def __init__(self, close_at_pump):
        from collections import deque
        self.key_events = deque()
        self.close_at = close_at_pump
        self.pumps = 0
        self.closed = False
        self.fired = False

    def ensure_open(self, width, height):
        pass

    def draw(self, width, height, rgb):
        pass

    def pump_events(self):
        if self.closed:
            return
        n = self.pumps
        self.pumps += 1
        if n == self.close_at:
            self.closed = True
            self.fired = True
            raise KeyboardInterrupt


class ModelPcDevice:
    """the reference machine's device for the pc stack: documented keyboard protocol with no key events (status nibble
    0 per poll, one window pump per poll), reference screen decoder on the output side, window closed at pump p"""

    def __init__(self, w, close_at):
        self.w = w
        self.close_at = close_at
        self.pumps = 0
        self.pending = 0
        self.bits = []
        self.reads = 0
        self.closed = False

    def attach_memory(self, mem):
        self.ref = screen.RefScreen(self.w, mem)
        self._frames_seen = 0

    def _pump(self):
        if self.closed:
            return
        n = self.pumps
        self.pumps += 1
        if n == self.close_at:
            self.closed = True
            raise KeyboardInterrupt

    def write_bit(self, bit):
        self.bits.append(1 if bit else 0)
        self.ref.write_bit(bit)
        if len(self.ref.frames) > self._frames_seen:      # a presented frame pumps the window once
            self._frames_seen = len(self.ref.frames)
            self._pump()

    def read_bit(self):
        self.reads += 1
        if self.pending == 0:
            self._pump()
            self.pending = 4
        self.pending -= 1
        return False


def gen_pcstack(rng, index, tier):
    for _ in range(8):
        case, meta = G.gen_case(rng, 'c18')
        if case['w'] < 16:
            continue
        case['tags'] = meta['tags']
        case['input_bits'] = [0] * 64
        m, obs = enginesim.pre_run(rng, case)
        if m is None:
            continue
        reads = sum(1 for e in obs['log'] if e[0] == 'r')
        if reads == 0:
            continue
        break
    else:
        return None
    case['kind'] = 'pcstack'
    polls = (reads + 3) // 4
    case['close_at'] = sorted(set([0, rng.randrange(polls), polls - 1]))
    ring = rng.choice([None, 0, 3, 10])
    case['configs'] = [{'engine': 'native', 'last_ops': ring}, {'engine': 'fast', 'last_ops': ring},
                       {'engine': 'featured', 'last_ops': ring},
                       {'engine': 'native', 'last_ops': ring, 'env': {'FLIPJUMP_NO_FLAT': '1'}}]
    return case


def run_pcstack(case):
    from flipjump.interpreter import fjm_run
    from flipjump.interpreter.io_devices.pygame_window import PcIO, InteractiveScreen, WindowKeyEventSource
    from flipjump.interpreter.io_devices.KeyboardIO import KeyboardIO
    from flipjump.interpreter.io_devices import ScreenIO
    from flipjump.utils.exceptions import IOReadOnEOF
    path = enginesim.image_path()
    C.write_image(case, path)
    violations = []
    faults = {'device:kbd@pc-window-close': [0, 0]}
    states = set()
    steps = 0
    pw = case['probe_words']
    for close_at in case['close_at']:
        for cfg in case['configs']:
            # reference
            m = fjmodel.Machine(case['w'], C.case_segments(case), C.case_words(case), cfg.get('last_ops'))
            md = ModelPcDevice(case['w'], close_at)
            md.attach_memory(fjmodel.ModelMemory(m))
            try:
                cause, addr = fjmodel.run(m, md, IOReadOnEOF, 2000)
                exp_out = ('term', cause, addr)
            except KeyboardInterrupt:
                exp_out = ('term', 'keyboard-interrupt', None)
            except screen.RefScreenError:
                exp_out = ('raise', 'IODeviceException')
            except (fjmodel.StepCap, ValueError):
                continue
            exp = {'outcome': exp_out, 'ops': m.count if exp_out[0] == 'term' else None,
                   'last_ops': (None if m.last_ops is None else list(m.last_ops)) if exp_out[0] == 'term' else None,
                   'bits': md.bits, 'final': tuple(m.mem.get(a, 0) for a in pw)}
            # the real stack
            ScreenIO.time = screen._FakeTime()
            win = StubWindow(close_at)
            scr = InteractiveScreen(window=win)
            bits = []
            orig_wb = scr.write_bit
            dev = PcIO(scr, KeyboardIO(WindowKeyEventSource(win)))
            dmem = {}
            orig_attach = dev.attach_memory

            def attach(dm, _o=orig_attach, _d=dmem):
                _d['dm'] = dm
                _o(dm)
            dev.attach_memory = attach
            C.set_engine_env(cfg)
            try:
                st = fjm_run.run(path, io_device=dev, last_ops_debugging_list_length=cfg.get('last_ops'),
                                 profile=(cfg['engine'] == 'featured'))
                obs_out = ('term', str(st.termination_cause), st.memory_error_address)
                obs = {'outcome': obs_out, 'ops': st.op_counter,
                       'last_ops': None if st.last_ops_addresses is None else list(st.last_ops_addresses)}
            except kernel.WatchdogTimeout:
                raise
            except BaseException as e:  # noqa
                obs = {'outcome': ('raise', type(e).__name__), 'ops': None, 'last_ops': None}
            obs['final'] = tuple(dmem['dm'].read_word(a) for a in pw) if 'dm' in dmem else None
            steps += obs['ops'] or 0
            faults['device:kbd@pc-window-close'][0] += 1
            faults['device:kbd@pc-window-close'][1] += 1 if win.fired else 0
            states.add(f"{enginesim.cfg_class(cfg)}|pcstack|{exp_out[0]}:{exp_out[1]}")
            for f, name in (('outcome', 'termination'), ('ops', 'op-count'), ('last_ops', 'last-ops'),
                            ('final', 'memory-state')):
                if exp[f] != obs[f] and not (f == 'final' and obs[f] is None):
                    violations.append({'clause': name, 'config': cfg, 'config_name': enginesim.cfg_name(cfg),
                                       'expected': C._j(exp[f]) if f != 'final' else 'model memory',
                                       'observed': C._j(obs[f]) if f != 'final' else 'differs',
                                       'fault': {'kind': 'kbd-pc-window', 'close_at_pump': close_at},
                                       'exp_outcome': C._j(exp_out), 'obs_outcome': C._j(obs['outcome'])})
                    break
            if violations:
                break
        if violations:
            break
    return {'violations': violations[:3], 'probes': {'pcstack_case': 1, f"w{case['w']}": 1}, 'faults': faults,
            'states': states, 'steps': steps, 'nontrivial': faults['device:kbd@pc-window-close'][1] > 0,
            'digest': kernel.digest_of([case, [[v['clause'], v['config_name']] for v in violations], sorted(states)])}


def gen(rng, index, tier):
    if index % 16 == 5:
        return gen_pcstack(rng, index, tier)
    if index % 64 == 1:
        return gen_sigint(rng, index, tier, native=True)
    if index % 16 == 7:
        from sim import realprog
        case, _labels = realprog.real_case(rng)
        if case is None:
            return None
        m, obs = enginesim.pre_run(rng, case, cap=realprog.MAX_OPS)
        if m is None:
            return None
        calls = [e for e in obs['log'] if e[0] in ('w', 'r')]
        if not calls:
            return None
        n = len(calls)
        idxs = list(range(n)) if n <= 24 else sorted(rng.sample(range(n), 24))
        case['plans'] = [{'kind': rng.choice(KINDS_READ if calls[c][0] == 'r' else KINDS_WRITE), 'at': c, 'where': 'call'}
                         for c in idxs]
        case['configs'] = engine_configs(rng)[:4]
        case['model_cap'] = realprog.MAX_OPS
        return case
    if index % 16 == 3:
        return gen_sigint(rng, index, tier, native=False)
    for _ in range(6):
        case, meta = G.gen_case(rng, 'c18')
        case['tags'] = meta['tags']
        m, obs = enginesim.pre_run(rng, case)
        if m is None:
            continue
        calls = [e for e in obs['log'] if e[0] in ('w', 'r')]
        if not calls:
            continue
        break
    else:
        return None
    n = len(calls)
    idxs = list(range(n)) if n <= 48 else sorted(rng.sample(range(n), 48))
    plans = []
    for c in idxs:
        kinds = KINDS_READ if calls[c][0] == 'r' else KINDS_WRITE
        for kind in rng.sample(kinds, 2):
            plans.append({'kind': kind, 'at': c, 'where': 'call'})
    if rng.random() < 0.2:
        plans.append({'kind': rng.choice(['io', 'foreign', 'kbd']), 'at': -1, 'where': 'attach'})
    case['plans'] = plans
    case['configs'] = engine_configs(rng)
    return case


def run(case):
    if case.get('kind') == 'sigint':
        return run_sigint(case)
    if case.get('kind') == 'pcstack':
        return run_pcstack(case)
    faults = {}
    states = set()
    violations = []
    steps = 0
    path = enginesim.image_path()
    C.write_image(case, path)
    # fault-free baseline first: a disagreement here is C01/C07's matter
    base = dict(case, fault=None)
    cap = case.get('model_cap', enginesim.MODEL_CAP)
    bv, info = enginesim.evaluate(base, FIELDS, path=path, model_cap=cap)
    exp0 = next(iter(info['expected'].values()))
    m0 = info['model']
    probes = {f: 1 for f in B.probe_flags(case, m0, exp0)}
    baseline_disagrees = bool(bv)
    if bv:
        # the fault-free run already differs from the reference machine (C01/C07 report that). The faulted runs are
        # still judged: a stop state that is no state of the reference machine is a C18 violation in its own right
        # (e.g. an engine that consumes the input bit before it delivers the output bit of the same op).
        probes['baseline_disagrees'] = 1
    nontrivial = 0
    evals = 0
    for plan in case['plans']:
        c2 = dict(case, fault=plan)
        vs, info = enginesim.evaluate(c2, FIELDS, path=path, stop_at_first=False, model_cap=cap)
        steps += info['steps']
        exp = next(iter(info['expected'].values()))
        fired = any(e[0] == 'fault' for e in exp['log'])
        k = 'device:' + plan['kind'] + ('@attach' if plan['where'] == 'attach' else '')
        cur = faults.setdefault(k, [0, 0])
        cur[0] += len(case['configs'])
        cur[1] += len(case['configs']) if fired else 0
        evals += len(case['configs'])
        if fired and (exp.get('model_ops') or 0) >= 1:
            nontrivial += 1
        for cfg in case['configs']:
            states.add(f"{enginesim.cfg_class(cfg)}|{plan['kind']}|{exp['micro']}|{exp['outcome'][0]}:{exp['outcome'][1]}")
        for v in vs:
            v['fault'] = plan
            v['baseline_also_disagrees'] = baseline_disagrees
            violations.append(v)
        if violations:
            break
    probes['faulted_runs'] = evals
    return {'violations': violations[:3], 'probes': probes, 'faults': faults, 'states': states, 'steps': steps,
            'nontrivial': nontrivial > 0,
            'digest': kernel.digest_of([case, [[v['clause'], v['config_name'], v['fault']] for v in violations]])}


def _single(case, violation):
    c = copy.deepcopy(case)
    c['fault'] = violation.get('fault')
    c['plans'] = [violation['fault']] if violation.get('fault') else []
    return c


def run_single(case):
    """used by the minimiser through enginesim (case['fault'] already set)"""
    return enginesim.evaluate(case, FIELDS)


def minimise(case, violation):
    if case.get('kind') == 'pcstack':
        c = copy.deepcopy(case)
        c['configs'] = [violation['config']]
        c['close_at'] = [violation['fault']['close_at_pump']]
        return c, violation
    if case.get('kind') == 'sigint':
        c = copy.deepcopy(case)
        flt = violation['fault']
        c['configs'] = [violation['config']]
        c['instr_ns'] = [flt['instr_n']] if flt['instr_n'] >= 0 else []
        c['fire_calls'] = [flt['fire_at_call']] if flt['fire_at_call'] >= 0 else []
        if c['family'] == 'native-poll' and not c['fire_calls']:
            c['fire_calls'] = case['fire_calls'][:1]
        return c, violation
    c = _single(case, violation)
    mc, mv = enginesim.minimise(c, violation, FIELDS, model_cap=case.get('model_cap', enginesim.MODEL_CAP),
                                budget=120 if case.get('model_cap') else 400)
    mv = dict(mv, fault=mc.get('fault'))
    mc['plans'] = [mc['fault']] if mc.get('fault') else []
    return mc, mv


def signature(case, violation):
    if case.get('kind') == 'pcstack':
        return {'clause': violation.get('clause'), 'config_class': enginesim.cfg_class(violation.get('config')),
                'w': case['w'], 'fault_kind': 'kbd-pc-window'}
    if case.get('kind') == 'sigint':
        return {'clause': violation.get('clause'), 'config_class': enginesim.cfg_class(violation.get('config')),
                'w': case['w'], 'fault_kind': 'sigint', 'family': case.get('family')}
    c = dict(case)
    if violation.get('fault'):
        c['fault'] = violation['fault']
    sig = enginesim.signature(c, violation)
    sig['fault_kind'] = (violation.get('fault') or {}).get('kind')
    sig['baseline_also_disagrees'] = bool(violation.get('baseline_also_disagrees'))
    sig['exp_outcome_class'] = (violation.get('exp_outcome') or [None, None])[:2]
    return sig


def adequacy(tier, agg):
    return B.adequacy(tier, agg, ['input', 'output', 'faulted_runs', 'sigint_runs', 'sigint_native-poll', 'sigint_python-instr', 'pcstack_case'])
