"""C01 - every engine executes the FlipJump machine semantics exactly (DESIGN.md 5.1)

Fault-free configuration of enginesim: geometry-biased images x input streams closed at an arbitrary bit
x {native, fast, featured}; lock-step comparison with the reference machine at every device call.
"""
from checks import _engine_base as B
from checks._engine_base import setup_main, setup_worker, config_class, COMPONENTS, TIME_NOTE  # noqa
from sim import enginesim
from sim import gen as G

ID = 'C01'
LEVEL = 'exploration'
FIELDS = ('outcome', 'ops', 'log', 'final')
RULE = ('cases are drawn by sim/gen.py (geometry-biased wired-op images, w in {8,16,32,64}, writer versions 0-3, input '
        'of 0..64 bits closed by EOF) from VERIF_SEED; each is run on the reference machine and on native/fast/'
        'featured with a scripted device that snapshots every model-touched word at every device call. a case is '
        'non-trivial when the model executes >= 2 ops; distinct = distinct digest of (case, outcome)')
STATE_MEASURE = 'distinct (engine class, w, termination cause, set of rare-condition probe flags) tuples'
ASSUMPTIONS = ['the reference machine sim/fjmodel.py is the meaning of the statement (validated against the test '
               'catalogue in setup)', 'images are limited to <= a few hundred dense words and <= 2000 ops',
               'segments lie inside the w-bit address space', 'CPython 3.12 / gcc -O2 build of _fjcore.c']


def plan(tier):
    if tier == 'thorough':
        return {'cases': 2000000, 'chunk': 1000, 'budget_s': 1200, 'case_timeout_s': 20, 'minimise_budget_s': 180}
    return {'cases': 120000, 'chunk': 500, 'budget_s': 70, 'case_timeout_s': 20, 'minimise_budget_s': 60}


BIG_EVERY = 1500          # one case in this many is a long contiguous run around a power-of-two size


def gen_big(rng, index, tier):
    """an image whose ONE contiguous run of explicitly stored words is a little longer than a power of two (page size,
    2^16, 2^20, 2^22 = half the default flat window; 2^23 = the default flat window in the thorough tier) with the
    executed ops sitting across that size: op 0 jumps over the zero bulk into a short generated tail. Stored compactly
    (length + non-zero words) and materialised in the worker."""
    w = rng.choice([32, 64])
    ww = w.bit_length() - 1
    sizes = [1 << 14, 1 << 16, 1 << 16, 1 << 20]
    if (index // BIG_EVERY) % 8 == 1:
        sizes = [1 << 22]
    if tier == 'thorough' and (index // BIG_EVERY) % 64 == 3:
        sizes = [1 << 23]
    B_ = rng.choice(sizes)
    T = B_ + rng.choice([-6, -4, -2, 0, 2, 8])           # word address of the first tail op
    n = rng.randint(4, 12)
    nz = {}
    bits = []
    nz[0], nz[1] = rng.choice([0, 2 * w, (B_ - 1) << ww, B_ << ww]) + rng.randrange(w), T << ww
    for i in range(n):
        a = T + 2 * i
        k = rng.random()
        if k < 0.6:
            f = 2 * w + rng.randrange(2)                 # an output bit
        elif k < 0.8:
            f = ((T + 2 * rng.randrange(i + 1, n + 1)) << ww) + rng.randrange(1, ww)    # a later op's flip word (low bits)
        else:
            f = (rng.choice([B_ - 3, B_ - 1, B_, B_ + 1, T + 2 * n + 3]) << ww) + rng.randrange(w)
        nz[a], nz[a + 1] = f, (a + 2) << ww
    halt = T + 2 * n
    nz[halt], nz[halt + 1] = ((halt + 4) << ww) + rng.randrange(w), halt << ww
    L = halt + 2 + rng.choice([0, 2, 6, 20])             # whole ops: the reader refuses an odd data length
    nz = {a: v for a, v in nz.items() if v and a < L}
    seg_len = L + rng.choice([0, 0, 5, 3000])
    seg_len += seg_len & 1                                # the writer wants whole ops
    case = {'w': w, 'segments': [{'start': 0, 'length': seg_len, 'data': [],
                                  'data_rle': {'len': L, 'nz': sorted(nz.items())}}],
            'version': rng.choice([0, 1, 1, 2, 3]), 'lzma_preset': 0, 'file_order': 'asc', 'input_bits': [],
            'fault': None, 'probe_words': sorted(set([0, 1, B_ - 1, B_, B_ + 1, T, T + 1, halt, halt + 1, L - 1])),
            'tags': ['big_run', 'big_run_2^%d' % (B_.bit_length() - 1)], 'kind': 'big'}
    case['probe_words'] = [a for a in case['probe_words'] if 0 <= a < L]
    case['configs'] = [{'engine': 'native', 'probe': 'touched'}, {'engine': 'fast', 'probe': 'touched'},
                       {'engine': 'native', 'probe': 'touched', 'last_ops': 4}]
    if B_ <= 1 << 20:
        case['configs'] += [{'engine': 'featured', 'probe': 'touched'},
                            {'engine': 'native', 'probe': 'touched', 'flat_max_words': B_ + rng.choice([-1, 0, 1])}]
    return case


def materialise(case):
    if not any('data_rle' in s for s in case['segments']):
        return case
    full = dict(case, segments=[])
    for s in case['segments']:
        s2 = {k: v for k, v in s.items() if k != 'data_rle'}
        if 'data_rle' in s:
            data = [0] * s['data_rle']['len']
            for a, v in s['data_rle']['nz']:
                data[a] = v
            s2['data'] = data
        full['segments'].append(s2)
    return full


def gen(rng, index, tier):
    if index % BIG_EVERY == 700:
        return gen_big(rng, index, tier)
    case, meta = G.gen_case(rng, 'c01')
    case['tags'] = meta['tags']
    m, obs = enginesim.pre_run(rng, case)
    if m is None:
        return None
    knob = rng.choice([{'env': {'FLIPJUMP_NO_FLAT': '1'}}, {'flat_max_words': rng.choice([1, 2, 3, 5, 16, 64])},
                       {'env': {'FLIPJUMP_MEASURE_SPECULATION': '1'}}, {'last_ops': rng.choice([1, 4])}])
    case['configs'] = [{'engine': 'native', 'probe': 'touched'}, {'engine': 'fast', 'probe': 'touched'},
                       {'engine': 'featured', 'probe': 'touched'}, dict({'engine': 'native', 'probe': 'touched'}, **knob)]
    if rng.random() < 0.2:
        case['configs'].append({'engine': 'featured', 'trace': True, 'probe': 'touched'})
    return case




def run(case):
    full = materialise(case)
    violations, info = enginesim.evaluate(full, FIELDS)
    exp = next(iter(info['expected'].values()))
    res = B.result_from(case, violations, info, exp, info['model'])
    if full is not case:
        # the compact form has no data list: the flag for reserved (never stored) zero words would be wrong here
        res['probes'].pop('lazy_zero_touch', None)
        res['states'] = {st.replace('lazy_zero_touch', 'big_run') for st in res['states']}
        for t in case['tags']:
            res['probes'][t] = 1
    return res


def minimise(case, violation):
    if case.get('kind') == 'big':
        c = dict(case, configs=[violation['config']])
        return c, violation
    return enginesim.minimise(case, violation, FIELDS)


def signature(case, violation):
    return enginesim.signature(case, violation)


def adequacy(tier, agg):
    return B.adequacy(tier, agg, None)
