"""C01 - every engine executes the FlipJump machine semantics exactly (DESIGN.md 5.1)

Fault-free configuration of enginesim: geometry-biased images x input streams closed at an arbitrary bit
x {native, fast, featured}; lock-step comparison with the reference machine at every device call.
"""
from checks import _engine_base as B
from checks._engine_base import setup_main, setup_worker, config_class, COMPONENTS, TIME_NOTE  # noqa
from sim import enginesim
from sim import gen as G

ID = 'C01'
LEVEL = 'exploration'
FIELDS = ('outcome', 'ops', 'log', 'final')
RULE = ('cases are drawn by sim/gen.py (geometry-biased wired-op images, w in {8,16,32,64}, writer versions 0-3, input '
        'of 0..64 bits closed by EOF) from VERIF_SEED; each is run on the reference machine and on native/fast/'
        'featured with a scripted device that snapshots every model-touched word at every device call. a case is '
        'non-trivial when the model executes >= 2 ops; distinct = distinct digest of (case, outcome)')
STATE_MEASURE = 'distinct (engine class, w, termination cause, set of rare-condition probe flags) tuples'
ASSUMPTIONS = ['the reference machine sim/fjmodel.py is the meaning of the statement (validated against the test '
               'catalogue in setup)', 'images are limited to <= a few hundred dense words and <= 2000 ops',
               'segments lie inside the w-bit address space', 'CPython 3.12 / gcc -O2 build of _fjcore.c']


def plan(tier):
    if tier == 'thorough':
        return {'cases': 2000000, 'chunk': 1000, 'budget_s': 1200, 'case_timeout_s': 20, 'minimise_budget_s': 180}
    return {'cases': 120000, 'chunk': 500, 'budget_s': 70, 'case_timeout_s': 20, 'minimise_budget_s': 60}


def gen(rng, index, tier):
    case, meta = G.gen_case(rng, 'c01')
    case['tags'] = meta['tags']
    m, obs = enginesim.pre_run(rng, case)
    if m is None:
        return None
    knob = rng.choice([{'env': {'FLIPJUMP_NO_FLAT': '1'}}, {'flat_max_words': rng.choice([1, 2, 3, 5, 16, 64])},
                       {'env': {'FLIPJUMP_MEASURE_SPECULATION': '1'}}, {'last_ops': rng.choice([1, 4])}])
    case['configs'] = [{'engine': 'native', 'probe': 'touched'}, {'engine': 'fast', 'probe': 'touched'},
                       {'engine': 'featured', 'probe': 'touched'}, dict({'engine': 'native', 'probe': 'touched'}, **knob)]
    if rng.random() < 0.2:
        case['configs'].append({'engine': 'featured', 'trace': True, 'probe': 'touched'})
    return case




def run(case):
    violations, info = enginesim.evaluate(case, FIELDS)
    exp = next(iter(info['expected'].values()))
    return B.result_from(case, violations, info, exp, info['model'])


def minimise(case, violation):
    return enginesim.minimise(case, violation, FIELDS)


def signature(case, violation):
    return enginesim.signature(case, violation)


def adequacy(tier, agg):
    return B.adequacy(tier, agg, None)
