"""common parts of the enginesim checks (C01, C07, C11, C18, C19)"""
import collections

from sim import build, case as C, enginesim, gen, kernel

PAGE = gen.PAGE
import os
VARIANT = os.environ.get('VERIF_ENGINE_VARIANT', 'plain')

COMPONENTS = {
    'real': ['flipjump.interpreter.fjm_run.run / _run_featured / _run_fast / _run_native (working tree)',
             '_fjcore.c rebuilt from the working tree (private build, never the in-place .so)',
             'flipjump.fjm.fjm_writer.Writer (every image is written through it)', 'flipjump.fjm.fjm_reader.Reader',
             'ReaderDeviceMemory / NativeDeviceMemory', 'RunStatistics / TerminationStatistics'],
    'stub': ['the IO device (SimDevice: scripted, records every call)', 'wall clock (never consulted for choices)'],
    'oracle': ['sim/fjmodel.py reference machine (written from the statement of C01, validated against the '
               'repository test catalogue in setup)'],
}
TIME_NOTE = ('the simulator\'s unit of time is one FlipJump op; simulated_steps counts ops executed by the real '
             'engines under test (the model executes the same number again)')


def setup_main():
    build.build_fjcore(VARIANT)


def setup_worker(variant=None):
    import sys
    if 'flipjump.interpreter.fjm_run' not in sys.modules:
        build.install_fjcore(variant or VARIANT)


def config_class(cfg):
    return enginesim.cfg_class(cfg)


def probe_flags(case, m, obs):
    """rare-condition probes reached by the model run of this case"""
    w = case['w']
    ww = w.bit_length() - 1
    fl = set(m.flags)
    fl.add(f'w{w}')
    out = obs['outcome']
    if out[0] == 'term':
        fl.add('cause_' + out[1])
        if out[1] == 'runtime-memory-error':
            fl.add({'m1': 'fault_on_flip_word_fetch', 'm5': 'fault_on_flip', 'm6': 'fault_on_jump_fetch',
                    'm4': 'fault_on_input_store'}.get(obs.get('micro'), 'fault_other'))
    log = obs['log']
    if any(e[0] == 'w' for e in log):
        fl.add('output')
    if any(e[0] == 'r' for e in log):
        fl.add('input')
    lazy = [(s['start'] + len(s['data']), s['start'] + s['length']) for s in case['segments']
            if s['length'] - len(s['data']) >= 1000]
    if any(lo <= a < hi for a in m.touched for lo, hi in lazy):
        fl.add('lazy_zero_touch')
    top = 1 << w
    for ip, f in zip(m.ip_trace, m.f_trace):
        a = ip >> ww
        if (ip & (w - 1)) == 0 and (a & (PAGE - 1)) == PAGE - 1:
            fl.add('page_straddle_op')
        pa, pf = a >> 14, (f >> ww) >> 14
        if pa != pf and (pa & 15) == (pf & 15):
            fl.add('same_cache_slot_eviction')
        if ip + 2 * w >= top:
            fl.add('top_of_space')
        in_addr = 3 * w + w.bit_length()
        if ip <= in_addr < ip + 2 * w and in_addr < ip + w:
            fl.add('input_bit_in_flip_word')
        if a >= gen.FLAT_DEFAULT - 2 or (f >> ww) >= gen.FLAT_DEFAULT - 2:
            fl.add('beyond_default_window')
    if w == 64:
        words = C.case_words(case)
        if any(words.get(a) == gen.MAGIC or m.mem.get(a) == gen.MAGIC for a in m.touched):
            fl.add('magic_word_touched')
    for t in case.get('tags') or ():
        fl.add('geom_' + t)
    return fl


def result_from(case, violations, info, obs, m, extra_states=(), faults=None):
    fl = probe_flags(case, m, obs) if m is not None else set()
    for sm in info.get('storage_modes', ()):
        fl.add('storage_' + sm)
    cause = obs['outcome'][1] if obs['outcome'][0] in ('term', 'raise') else obs['outcome'][0]
    states = set(extra_states)
    for cfg in case['configs']:
        states.add(f"{enginesim.cfg_class(cfg)}|w{case['w']}|{cause}|{','.join(sorted(f for f in fl if not f.startswith(('geom_', 'w', 'cause_'))))}")
    return {
        'violations': violations,
        'probes': {f: 1 for f in fl},
        'faults': faults or {},
        'states': states,
        'steps': info['steps'],
        'nontrivial': (obs.get('model_ops') or 0) >= 2,
        'digest': kernel.digest_of([case, [[v['clause'], v['config_name']] for v in violations],
                                    obs['outcome'], obs.get('model_ops'), len(obs['log'])]),
    }


REQUIRED_PROBES = ['unaligned_ip', 'op_flips_own_jump_word', 'halt_vs_selfflip', 'input', 'output', 'lazy_zero_touch',
                   'page_straddle_op', 'same_cache_slot_eviction', 'top_of_space', 'input_bit_in_flip_word',
                   'magic_word_touched', 'fault_on_flip_word_fetch', 'fault_on_flip', 'fault_on_jump_fetch',
                   'cause_EOF', 'cause_ip<2w', 'cause_looping', 'w8', 'w16', 'w32', 'w64']


def adequacy(tier, agg, required=None, min_cases=500):
    """a probe stuck at zero means the workload cannot reach what the property is about: harness inadequate (exit 2)"""
    if agg['evaluations'] < min_cases:
        return []            # tiny ad-hoc runs (--cases N) are not judged
    probes = agg['probes']
    missing = [p for p in (required or REQUIRED_PROBES) if probes.get(p, 0) == 0]
    out = [f'probe {p} was never reached' for p in missing]
    for k, (conf, fired) in agg['faults'].items():
        if conf >= 20 and fired == 0:
            out.append(f'fault kind {k} was configured {conf} times but never fired')
    return out
