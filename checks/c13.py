"""C13 - assembly output is a pure function of its inputs (DESIGN.md 5.5)

historysim: a seeded HISTORY of assemble calls is executed in ONE process (a fresh fork per history, so every
history starts from process-fresh parser state): successes, failures of every class, calls interrupted at a chosen
bytecode instruction, calls hit by I/O errors, stl mtime jumps, other widths / warning modes / recursion depths.
After every call that succeeds, the bytes of its .fjm and .fjd must equal those produced for the same
configuration by a brand-new interpreter (subprocess, other hash seed, other directory).
"""
import contextlib
import hashlib
import io
import json
import os
import random
import subprocess
import sys
import time
from pathlib import Path

from sim import kernel, simfs, build, corpus

ID = 'C13'
LEVEL = 'exploration'
RULE = ('histories of 2-10 operations in one process drawn from: successful assemble (corpus of 12 programs with/without '
        'the stl, multi-file) x w x version x warning mode x max_recursion_depth x debug file; failing assemble of 11 '
        'error classes; the stl passed explicitly (full, prefix subset, reordered, other short names); pending SIGINT at a '
        'log-uniform instruction of parser/preprocessor/assembler code; OSError at the k-th source open, on the stat '
        'behind the cache key, on the output; stl mtime jumps; the last operation collides with an earlier one (same '
        'program other width / other warning mode / same key after a failure). every successful call is compared with a '
        'fresh interpreter. non-trivial: >= 1 compared call preceded by >= 1 other call; distinct = digest of the history')
STATE_MEASURE = ('distinct (cache state at the compared call in {cold, warm-same-key, warm-other-width, warm-other-mode}, '
                 'kind of the previous operation, kind of this operation) triples')
ASSUMPTIONS = ['the fresh-interpreter result (sim/ref_assemble.py, memoised per configuration and source-tree hash) is '
               'the function value', 'the harness never resets parser state, the stl cache or the recursion limit between '
               'operations of a history', 'histories <= 10 operations; corpus programs <= 30 lines']
COMPONENTS = {'real': ['flipjump.assembler.assembler.assemble -> fj_parser (incl. the stl-prefix cache) -> preprocessor -> '
                       'labels_resolve -> Writer -> save_debugging_labels', 'the packaged stl'],
              'stub': ['output disk (sim/simfs.py)', 'Path.open / Path.stat seams for injected I/O errors and mtime jumps',
                       'interrupt source (sim/_verifsig.c)'],
              'oracle': ['a fresh interpreter per configuration (subprocess with another PYTHONHASHSEED and directory)']}
TIME_NOTE = 'the unit of simulated time is one operation of the history (one assemble call)'

FS = None
_sig = None
_codes = None
TREE = None
REFCACHE = kernel.SCRATCH_ROOT / 'refcache'
NSTL = 33


def _tree_hash():
    h = hashlib.sha256()
    root = build.REPO / 'flipjump'
    for p in sorted(root.rglob('*')):
        if p.suffix in ('.py', '.fj', '.json') and p.is_file():
            h.update(str(p.relative_to(root)).encode())
            h.update(p.read_bytes())
    return h.hexdigest()[:16]


def setup_main():
    build.build_helper('_verifsig')
    os.environ['VERIF_TREE_HASH'] = _tree_hash()
    REFCACHE.mkdir(parents=True, exist_ok=True)


def setup_worker():
    global FS, _sig, _codes, TREE, NSTL
    if 'flipjump.interpreter.fjm_run' not in sys.modules:
        build.install_fjcore('plain')
    TREE = os.environ.get('VERIF_TREE_HASH') or _tree_hash()
    REFCACHE.mkdir(parents=True, exist_ok=True)
    FS = simfs.SimFS()
    FS.install()
    from sim import sigint
    _sig = sigint.helper()
    from flipjump.assembler import fj_parser, preprocessor, assembler
    from flipjump.assembler.inner_classes import ops, expr
    from flipjump.utils.functions import get_stl_paths
    NSTL = len(get_stl_paths())
    codes = []
    import types
    for mod in (fj_parser, preprocessor, assembler, ops, expr):
        for name, obj in vars(mod).items():
            if isinstance(obj, types.FunctionType) and obj.__module__ == mod.__name__:
                codes.append(obj.__code__)
            elif isinstance(obj, type) and obj.__module__ == mod.__name__:
                for n2, o2 in vars(obj).items():
                    f = o2.__func__ if isinstance(o2, (staticmethod, classmethod)) else o2
                    if isinstance(f, types.FunctionType):
                        codes.append(f.__code__)
    _codes = codes
    mon = sys.monitoring
    if mon.get_tool(sigint.TOOL) is None:
        mon.use_tool_id(sigint.TOOL, 'verif-sigint')
    mon.register_callback(sigint.TOOL, mon.events.INSTRUCTION, _sig.on_instruction)
    _sig.arm(-1)


def config_class(cfg):
    return None


def plan(tier):
    if tier == 'thorough':
        return {'cases': 30000, 'chunk': 8, 'budget_s': 1500, 'case_timeout_s': 240, 'minimise_budget_s': 60}
    return {'cases': 1100, 'chunk': 2, 'budget_s': 70, 'case_timeout_s': 240, 'minimise_budget_s': 30}


# ------------------------------------------------------------------------------------------ generation

def stl_files(rng, mode):
    idx = list(range(NSTL))
    if mode == 'default':
        return [[f's{i + 1}', 'stl', i] for i in idx]
    if mode == 'renamed':
        return [[f'lib{i}', 'stl', i] for i in idx]
    if mode == 'prefix':
        k = rng.choice([1, 3, 14, NSTL - 1])
        return [[f's{i + 1}', 'stl', i] for i in idx[:k]]
    if mode == 'reordered':
        a, b = rng.sample(range(3, NSTL), 2)
        idx[a], idx[b] = idx[b], idx[a]
        return [[f's{i + 1}', 'stl', i] for i in idx]
    return []


def make_cfg(rng, name, table, w=None, werror=None, stl_mode=None):
    stl, texts = table[name]
    if w is None:
        w = rng.choice([32, 64, 64]) if stl else rng.choice([8, 16, 32, 64])
    files = []
    if stl:
        files += stl_files(rng, stl_mode or rng.choice(['default', 'default', 'default', 'renamed', 'reordered']))
    elif (stl_mode or rng.random() < 0.15) and w >= 32:
        files += stl_files(rng, stl_mode if stl_mode else rng.choice(['prefix', 'default']))
    for i, t in enumerate(texts):
        files.append([f'f{i + 1}', 'user', t])
    return {'program': name, 'files': files, 'w': w, 'version': rng.choice([0, 1, 2, 3, 3]), 'flags': 0,
            'preset': rng.choice([0, 6]), 'werror': rng.random() < 0.7 if werror is None else werror,
            'debug': rng.random() < 0.6}


PAIRS = [('n_ns', 'n_ns2'), ('s_ns_a', 's_ns_b'), ('s_const_k', 's_rep_k'), ('s_const_k', 's_label_k')]


def pick_ok(rng):
    names = sorted(corpus.OK)
    stl = [n for n in names if corpus.OK[n][0]]
    return rng.choice(stl) if rng.random() < 0.6 else rng.choice(names)


def gen_lib(rng, index, tier):
    """library mode: the parser's cacheable directory is a private one (sim/corpus.LIB); programs differ in the
    values the cached macros see (rep counts from global labels / constants), and a library file may be edited
    WHILE a call is parsing (after it was read) or between calls"""
    texts = dict(corpus.LIB)
    ops = []
    nops = rng.randint(3, 7)
    w = rng.choice([16, 32, 64])
    werror = rng.random() < 0.7
    short_prefix = rng.random() < 0.3
    for i in range(nops):
        r = rng.random()
        edit = None
        n_extra = rng.choice([0, 0, 1, 2, 3])
        if r < 0.3 and i < nops - 1:
            name = rng.choice(sorted(corpus.LIB_EDITS))
            cands = [e for e in corpus.LIB_EDITS[name] if e[0] in texts[name]]
            if cands:
                a, b = rng.choice(cands)
                edit = {'file': name, 'new_text': texts[name].replace(a, b, 1),
                        'at_open': rng.choice([1, 2, None])}      # during the parse (after la/lb were read) or after the call
        k, k2 = rng.choice([1, 2, 3, 5]), rng.choice([0, 1, 2])
        use = rng.sample(['stubs', 'twice', 'grid', 'pick', 'wf'], rng.randint(1, 3))
        if rng.random() < 0.35:
            use.append(rng.choice(['const', 'iter_kk']))      # a program constant / the same name as a rep iterator
        if edit and edit['file'] == 'lb.fj' and edit['at_open'] == 1:
            edit['at_open'] = 2           # lb is being opened at open #1: edit it only after it was read
        libfiles = [['la', 'lib', ['la.fj', texts['la.fj']]], ['lb', 'lib', ['lb.fj', texts['lb.fj']]]]
        if short_prefix:
            # only the first library file is given (a cacheable prefix of length one)
            use = [u for u in use if u in ('stubs', 'pick', 'const', 'iter_kk')] or ['stubs']
            libfiles = libfiles[:1]
        # the program may come in several user files (at least as many as the cacheable prefix is long, sometimes)
        extra = [[f'x{j}', 'user', f'def user_extra_{j} @ here {{\n  here:\n  ;here\n}}\nUSER_EXTRA_{j} = {j + k}\n']
                 for j in range(n_extra)]
        cfg = {'program': f'lib:{k}:{k2}:{"+".join(use)}' + (':short' if short_prefix else '') + f':x{n_extra}',
               'files': libfiles + extra[:n_extra // 2] + [['f1', 'user', corpus.lib_program(k, k2, use)]] +
               extra[n_extra // 2:],
               'w': w if rng.random() < 0.7 else rng.choice([16, 32, 64]), 'version': rng.choice([0, 1, 2, 3]), 'flags': 0,
               'preset': 0, 'werror': werror if rng.random() < 0.8 else (not werror), 'debug': rng.random() < 0.7}
        kind = 'assemble'
        op = {'kind': kind, 'cfg': cfg, 'depth': rng.choice([None, None, 900, 40]), 'edit': edit}
        if rng.random() < 0.12:
            op = {'kind': 'sigint', 'cfg': cfg, 'depth': None, 'n': int(10 ** rng.uniform(0, 4.5)), 'edit': edit}
        ops.append(op)
        if edit:
            texts[edit['file']] = edit['new_text']
    ops[-1]['probe'] = True
    return {'ops': ops, 'seed': rng.getrandbits(32), 'lib_mode': True}


def gen(rng, index, tier):
    if index % 4 == 1:
        return gen_lib(rng, index, tier)
    nops = rng.randint(2, 10 if tier == 'thorough' else 7)
    ops = []
    okn, failn = sorted(corpus.OK), sorted(corpus.FAIL)
    for i in range(nops - 1):
        r = rng.random()
        if r < 0.45:
            ops.append({'kind': 'assemble', 'cfg': make_cfg(rng, pick_ok(rng), corpus.OK),
                        'depth': rng.choice([None, None, None, 900, 60, 10, 3])})
        elif r < 0.62:
            ops.append({'kind': 'fail', 'cfg': make_cfg(rng, rng.choice(failn), corpus.FAIL),
                        'depth': rng.choice([None, None, 20, 3])})
        elif r < 0.78:
            n = int(10 ** rng.uniform(0, 6.3))
            ops.append({'kind': 'sigint', 'cfg': make_cfg(rng, pick_ok(rng), corpus.OK), 'depth': None, 'n': n})
        elif r < 0.9:
            fk = rng.choice(['src_open', 'src_open', 'stat_fail', 'out_fail'])
            ops.append({'kind': 'oserror', 'cfg': make_cfg(rng, pick_ok(rng), corpus.OK), 'depth': None,
                        'fault': fk, 'k': rng.choice([0, 0, 1, 2, 5, rng.randrange(0, 40)]) if fk != 'out_fail' else rng.randrange(0, 8)})
        else:
            ops.append({'kind': 'mtime_jump', 'delta': rng.choice([1, 10 ** 9, -10 ** 9, 12345])})
    if rng.random() < (0.04 if tier == 'thorough' else 0.025):
        # one very large assembly (a 17 MiB label table) somewhere before the probe
        cfg = make_cfg(rng, 'n_big_labels', corpus.BIG, w=64)
        cfg['debug'] = True
        cfg['version'] = rng.choice([1, 3])
        ops.insert(rng.randrange(len(ops) + 1), {'kind': 'assemble', 'cfg': cfg, 'depth': None})
        for o in ops:
            if 'cfg' in o and o['cfg']['program'] != 'n_big_labels':
                o['cfg']['debug'] = True
    # the probe: collide with something that came before
    prev = [o for o in ops if 'cfg' in o]
    if prev and rng.random() < 0.8:
        base = rng.choice(prev)['cfg']
        name = base['program'] if base['program'] in corpus.OK else rng.choice(okn)
        how = rng.choice(['same', 'other_width', 'other_mode', 'other_program_same_key'])
        if how == 'other_program_same_key':
            name = pick_ok(rng)
        cfg = make_cfg(rng, name, corpus.OK, w=base['w'] if how != 'other_width' else None,
                       werror=(not base['werror']) if how == 'other_mode' else base['werror'])
        if how == 'other_width':
            ws = [x for x in ((32, 64) if corpus.OK[name][0] else (8, 16, 32, 64)) if x != base['w']]
            cfg['w'] = rng.choice(ws)
        if cfg['w'] < 32:
            cfg['files'] = [f for f in cfg['files'] if f[1] != 'stl'] if not corpus.OK[name][0] else cfg['files']
    else:
        cfg = make_cfg(rng, rng.choice(okn), corpus.OK)
    if rng.random() < 0.25:
        # a colliding PAIR: two programs that reuse a name (constant vs rep iterator / label, a namespaced macro with
        # the same full name and arity but other parameter names): the first somewhere earlier, the second as the probe
        a, b = rng.choice(PAIRS)
        if rng.random() < 0.5:
            a, b = b, a
        first = make_cfg(rng, a, corpus.OK)
        cfg = make_cfg(rng, b, corpus.OK, w=first['w'], werror=first['werror'])
        cfg['files'] = [f for f in first['files'] if f[1] == 'stl'] + [f for f in cfg['files'] if f[1] != 'stl']
        cfg['debug'] = True
        ops.insert(rng.randrange(len(ops) + 1), {'kind': 'assemble', 'cfg': first, 'depth': None})
    deep_probe = None
    r_depth = rng.random()
    if r_depth < 0.06:
        # an earlier call with a RAISED macro-recursion depth, and a probe whose expression nesting exceeds python's
        # default recursion limit (it must fail exactly as in a fresh process)
        ops.insert(rng.randrange(len(ops) + 1), {'kind': 'assemble', 'cfg': make_cfg(rng, pick_ok(rng), corpus.OK),
                                                 'depth': rng.choice([6000, 8000])})
        deep_probe = make_cfg(rng, rng.choice(['f_deep_expr', 'f_mdeep600', 'f_mdeep600']), corpus.FAIL, w=rng.choice([32, 64]))
    elif r_depth < 0.13:
        # an earlier call - succeeding, or failing in the parser / in macro resolution / in the writer - with a
        # LOWERED (or raised) macro-recursion depth, and a probe with a moderately deep expression that a fresh
        # process assembles
        d = rng.choice([3, 20, 30, 50, 50, 3000])
        if rng.random() < 0.6:
            first = {'kind': 'fail', 'cfg': make_cfg(rng, rng.choice(['f_recursion', 'f_recursion', 'f_unknown_macro',
                                                                      'f_args', 'f_syntax', 'f_unresolved']), corpus.FAIL),
                     'depth': d}
        else:
            first = {'kind': 'assemble', 'cfg': make_cfg(rng, pick_ok(rng), corpus.OK), 'depth': d}
        ops.insert(rng.randrange(len(ops) + 1), first)
        cfg = make_cfg(rng, rng.choice(['n_expr80', 'n_expr300', 'n_expr80_here', 'n_mdeep300', 'n_mdeep300']), corpus.OK)
    if any(o.get('cfg', {}).get('program') == 'n_big_labels' for o in ops):
        cfg['debug'] = True
    if deep_probe is not None:
        ops.append({'kind': 'fail', 'cfg': deep_probe, 'depth': None, 'probe': True})
    else:
        ops.append({'kind': 'assemble', 'cfg': cfg, 'depth': rng.choice([None, None, 900, 60]), 'probe': True})
    for o in ops:
        # the deep-expression programs are judged under the default depth only (under a lowered limit their outcome
        # depends on how many frames the caller already has, which differs between the history and a fresh process)
        if o.get('cfg', {}).get('program', '').startswith(('n_expr', 'n_mdeep')):
            o['depth'] = None
    return {'ops': ops, 'seed': rng.getrandbits(32)}


# ------------------------------------------------------------------------------------------ reference (fresh interpreter)

def cfg_key(cfg):
    return kernel.digest_of([cfg['files'], cfg['w'], cfg['version'], cfg['flags'], cfg['preset'], cfg['werror'],
                             cfg['debug'], TREE])


def reference(cfg):
    key = cfg_key(cfg)
    f = REFCACHE / f'{key}.json'
    if f.exists():
        try:
            return json.loads(f.read_text())
        except ValueError:
            pass
    env = dict(os.environ, PYTHONHASHSEED=str(int(key[:6], 16) % 100000 + 1))
    env.pop('LD_PRELOAD', None)
    import tempfile
    with tempfile.TemporaryDirectory(prefix='fjverif-refcwd-') as cwd:
        r = subprocess.run([sys.executable, str(kernel.VERIF / 'sim' / 'ref_assemble.py')], input=json.dumps(cfg),
                           capture_output=True, text=True, env=env, cwd=cwd, timeout=200)
    line = [ln for ln in r.stdout.splitlines() if ln.startswith('REF ')]
    if not line:
        raise kernel.HarnessError(f'reference process failed: rc={r.returncode} {r.stderr[-800:]}')
    res = json.loads(line[0][4:])
    tmp = f.with_suffix(f'.{os.getpid()}.tmp')
    tmp.write_text(json.dumps(res))
    os.replace(tmp, f)
    return res


# ------------------------------------------------------------------------------------------ the history (runs in a fork)

class _StatProxy:
    def __init__(self, st, delta):
        self._st = st
        self.st_mtime_ns = st.st_mtime_ns + delta
        self.st_size = st.st_size

    def __getattr__(self, name):
        return getattr(self._st, name)


def run_history(case):
    """executed in a forked child. returns a JSON-able list of per-op records"""
    from flipjump.assembler import assembler, fj_parser
    from flipjump.fjm.fjm_writer import Writer
    from flipjump.fjm.fjm_consts import FJMVersion
    from flipjump.utils.functions import get_stl_paths
    from sim import case as C
    stl_paths = list(get_stl_paths())
    stl_dir = str(fj_parser._STL_DIR)
    mon = sys.monitoring
    from sim import sigint
    records = []
    state = {'mtime_delta': 0, 'stat_fail_at': None, 'stat_calls': 0, 'open_fail_at': None, 'open_calls': 0}
    real_stat = Path.stat
    real_open = Path.open

    def stat_wrapper(self, *a, **kw):
        st = real_stat(self, *a, **kw)
        if str(self).startswith(stl_dir):
            state['stat_calls'] += 1
            if state['stat_fail_at'] is not None and state['stat_calls'] - 1 == state['stat_fail_at']:
                state['fired'] = True
                raise OSError(5, 'injected stat failure', str(self))
            if state['mtime_delta']:
                return _StatProxy(st, state['mtime_delta'])
        return st

    def do_edit():
        ed = state.get('edit')
        if ed and not state.get('edit_done'):
            state['edit_done'] = True
            p = libdir / ed['file']
            with io.open(p, 'w') as f:
                f.write(ed['new_text'])
            st = os.stat(p)
            os.utime(p, ns=(st.st_atime_ns, st.st_mtime_ns + 1_000_000_007))

    def open_wrapper(self, *a, **kw):
        mode = a[0] if a else kw.get('mode', 'r')
        if str(self).endswith('.fj') and mode == 'r':
            ed = state.get('edit')
            if ed and ed.get('at_open') is not None and state['open_calls'] == ed['at_open']:
                do_edit()              # a concurrent save of a library file that this call has already read
            state['open_calls'] += 1
            if state['open_fail_at'] is not None and state['open_calls'] - 1 == state['open_fail_at']:
                state['fired'] = True
                raise OSError(5, 'injected open failure', str(self))
        return real_open(self, *a, **kw)

    Path.stat = stat_wrapper
    Path.open = open_wrapper
    base = C.scratch_dir() / f'hist-{os.getpid()}'
    base.mkdir(exist_ok=True)
    libdir = None
    if case.get('lib_mode'):
        libdir = base / 'lib'
        libdir.mkdir(exist_ok=True)
        for name, text in corpus.LIB.items():
            (libdir / name).write_text(text)
        fj_parser._STL_DIR = libdir.resolve()      # the documented seam ('module-level so tests can redirect it')
        stl_dir = str(libdir.resolve())
    sink = io.StringIO()
    for oi, op in enumerate(case['ops']):
        rec = {'i': oi, 'kind': op['kind']}
        if op['kind'] == 'mtime_jump':
            state['mtime_delta'] += op['delta']
            records.append(rec)
            continue
        cfg = op['cfg']
        state.update(stat_fail_at=None, open_fail_at=None, stat_calls=0, open_calls=0, fired=False)
        d = base / f'op{oi}'
        d.mkdir(exist_ok=True)
        tuples = []
        # every call asks the library for the standard-library file list again, as a caller does, and afterwards treats
        # the list it was given as its own (appends to it, reorders it): a returned value must not be shared state
        stl_now = get_stl_paths()
        state['edit'] = op.get('edit')
        state['edit_done'] = False
        for short, kind, ref in cfg['files']:
            if kind == 'stl':
                tuples.append((short, stl_now[ref]))
            elif kind == 'lib':
                tuples.append((short, libdir / ref[0]))
            else:
                p = d / f'u{len(tuples)}.fj'
                p.write_text(ref)
                tuples.append((short, p))
        out, dbg = f'/simfs/h{oi}.fjm', (f'/simfs/h{oi}.fjd' if cfg['debug'] else None)
        # cache state before the call (observed, never modified)
        # (a coverage measure only, read from a private structure: its absence or another key shape must not matter)
        nstl = sum(1 for f in cfg['files'] if f[1] in ('stl', 'lib'))
        try:
            keys = list(fj_parser._stl_prefix_cache.keys())
            if nstl == 0:
                rec['cache'] = 'no-stl'
            elif not keys:
                rec['cache'] = 'cold'
            elif any(k[0] == cfg['w'] and k[1] == cfg['werror'] for k in keys):
                rec['cache'] = 'warm-same-w-mode'
            elif any(k[0] != cfg['w'] for k in keys):
                rec['cache'] = 'warm-other-width'
            else:
                rec['cache'] = 'warm-other-mode'
        except Exception:       # noqa
            rec['cache'] = 'no-stl' if nstl == 0 else 'unobservable'
        FS.reset_log()
        FS.plan = None
        state.update(stat_fail_at=None, open_fail_at=None, stat_calls=0, open_calls=0, fired=False)
        n = -1
        if op['kind'] == 'oserror':
            if op['fault'] == 'src_open':
                state['open_fail_at'] = op['k']
            elif op['fault'] == 'stat_fail':
                state['stat_fail_at'] = op['k']
            else:
                FS.plan = {'kind': 'oserror', 'op': op['k'], 'errno': 28}
        if op['kind'] == 'sigint':
            n = op['n']
            for code in _codes:
                mon.set_local_events(sigint.TOOL, code, mon.events.INSTRUCTION)
        kw = {}
        if op.get('depth') is not None:
            kw['max_recursion_depth'] = op['depth']
        try:
            wr = Writer(out, cfg['w'], FJMVersion(cfg['version']), flags=cfg['flags'], lzma_preset=cfg['preset']) \
                if cfg['version'] == 3 else Writer(out, cfg['w'], FJMVersion(cfg['version']), flags=cfg['flags'])
            _sig.arm(n)
            try:
                with contextlib.redirect_stdout(sink):
                    assembler.assemble(tuples, cfg['w'], wr, warning_as_errors=cfg['werror'], debugging_file_path=dbg,
                                       print_time=False, **kw)
                rec['outcome'] = 'ok'
            finally:
                cnt, sfired = _sig.status()
                _sig.arm(-1)
                kernel.drain_interrupt()
                if isinstance(stl_now, list):
                    stl_now.reverse()
                    stl_now.append(d / 'caller-owned.fj')
        except kernel.WatchdogTimeout:
            raise
        except BaseException as e:  # noqa
            rec['outcome'] = 'raise'
            rec['exc'] = type(e).__name__
            sfired = rec.get('sfired', 0)
            _sig.arm(-1)
            kernel.drain_interrupt()
        if op['kind'] == 'sigint':
            for code in _codes:
                mon.set_local_events(sigint.TOOL, code, 0)
            rec['fired'] = bool(_sig.status()[1]) or rec.get('exc') == 'KeyboardInterrupt'
        elif op['kind'] == 'oserror':
            rec['fired'] = bool(state.get('fired')) or FS.fired
        FS.plan = None
        if rec['outcome'] == 'ok':
            rec['fjm'] = hashlib.sha256(FS.files.get(out, b'')).hexdigest()
            rec['fjd'] = hashlib.sha256(FS.files.get(dbg, b'')).hexdigest() if dbg else None
        if op.get('edit'):
            rec['edit_during_parse'] = bool(state.get('edit_done'))
            do_edit()                  # not reached during the call (warm cache, early failure): save it now
        rec['reclimit'] = sys.getrecursionlimit()
        sink.seek(0)
        sink.truncate()
        records.append(rec)
    Path.stat = real_stat
    Path.open = real_open
    return records


def run_forked(case):
    r, w = os.pipe()
    pid = os.fork()
    if pid == 0:
        code = 0
        try:
            os.close(r)
            try:
                out = {'records': run_history(case)}
            except BaseException as e:  # noqa
                import traceback
                out = {'error': traceback.format_exc()[-3000:]}
            data = json.dumps(out).encode()
            with os.fdopen(w, 'wb') as f:
                f.write(data)
        except BaseException:  # noqa
            code = 3
        finally:
            os._exit(code)
    os.close(w)
    try:
        with os.fdopen(r, 'rb') as f:
            data = f.read()
        _, status = os.waitpid(pid, 0)
    except BaseException:
        try:
            os.kill(pid, 9)
            os.waitpid(pid, 0)
        except OSError:
            pass
        raise
    if not data:
        return {'error': f'history child died with status {status}'}
    return json.loads(data.decode())


def run(case):
    res = run_forked(case)
    if 'error' in res:
        raise kernel.HarnessError('history child failed: ' + res['error'])
    records = res['records']
    violations = []
    faults = {}
    states = set()
    compared = 0
    prev_kind = 'start'
    for rec, op in zip(records, case['ops']):
        kind = op['kind']
        if kind in ('sigint', 'oserror'):
            fk = 'sigint@instr:assembler' if kind == 'sigint' else 'oserror:' + op['fault']
            cur = faults.setdefault(fk, [0, 0])
            cur[0] += 1
            cur[1] += 1 if rec.get('fired') else 0
        if op.get('edit'):
            cur = faults.setdefault('library-file-saved-during-parse', [0, 0])
            cur[0] += 1
            cur[1] += 1 if rec.get('edit_during_parse') else 0
        if kind == 'mtime_jump':
            cur = faults.setdefault('stl-mtime-jump', [0, 0])
            cur[0] += 1
            cur[1] += 1
            prev_kind = kind
            continue
        cfg = op['cfg']
        judged = (kind in ('assemble', 'fail')) or rec.get('outcome') == 'ok'
        if judged:
            ref = reference(cfg)
            compared += 1
            states.add(f"{rec.get('cache')}|prev:{prev_kind}|{kind}{'|probe' if op.get('probe') else ''}")
            v = None
            if rec['outcome'] == 'ok':
                if 'error' in ref:
                    v = ('outcome-differs', 'raises ' + ref['error'], 'assembled')
                elif rec['fjm'] != ref['fjm']:
                    v = ('fjm-bytes-differ', ref['fjm'][:16], rec['fjm'][:16])
                elif rec['fjd'] != ref['fjd']:
                    v = ('fjd-bytes-differ', str(ref['fjd'])[:16], str(rec['fjd'])[:16])
            else:
                depth_limited = op.get('depth') is not None and op['depth'] < 900
                if 'error' not in ref:
                    if not (depth_limited and rec.get('exc') == 'FlipJumpPreprocessorException'):
                        v = ('outcome-differs', 'assembles', 'raises ' + str(rec.get('exc')))
                elif ref['error'] != rec.get('exc') and not depth_limited:
                    v = ('exception-class-differs', ref['error'], rec.get('exc'))
            if v is not None and len(violations) < 3:
                violations.append({'clause': v[0], 'config': None, 'config_name': f"op{rec['i']}:{cfg['program']}",
                                   'expected': v[1], 'observed': v[2], 'op_index': rec['i'], 'cache_state': rec.get('cache'),
                                   'previous_op': prev_kind})
        prev_kind = kind + (':' + str(rec.get('exc')) if rec.get('outcome') == 'raise' else '')
    sys.setrecursionlimit(1000)
    probes = {'ops': len(records), 'compared_calls': compared}
    for rec, op in zip(records, case['ops']):
        if op.get('cfg', {}).get('program') == 'n_big_labels' and rec.get('outcome') == 'ok':
            probes['big_label_table_assembled'] = probes.get('big_label_table_assembled', 0) + 1
    for rec in records:
        if 'cache' in rec:
            probes['cache_' + rec['cache']] = probes.get('cache_' + rec['cache'], 0) + 1
        if rec.get('outcome') == 'raise':
            probes['raised_' + str(rec.get('exc'))] = probes.get('raised_' + str(rec.get('exc')), 0) + 1
    return {'violations': violations, 'probes': probes, 'faults': faults, 'states': states, 'steps': len(records),
            'nontrivial': compared >= 1 and len(records) >= 2,
            'digest': kernel.digest_of([case, [[v['clause'], v['op_index']] for v in violations],
                                        [[r.get('outcome'), r.get('exc'), r.get('fjm')] for r in records]])}


def minimise(case, violation):
    """drop operations of the history while the same clause persists at the (shifted) last compared op"""
    import copy
    best = copy.deepcopy(case)
    best['ops'] = best['ops'][:violation['op_index'] + 1]
    want = violation['clause']

    def fails(c):
        try:
            r = run(c)
        except Exception:
            return None
        for v in r['violations']:
            if v['clause'] == want:
                return v
        return None
    bv = fails(best)
    if bv is None:
        return case, violation
    i = len(best['ops']) - 2
    tries = 0
    while i >= 0 and tries < 12:
        c2 = copy.deepcopy(best)
        del c2['ops'][i]
        tries += 1
        v = fails(c2)
        if v is not None:
            best, bv = c2, v
        i -= 1
    return best, bv


def signature(case, violation):
    return {'clause': violation.get('clause'), 'config_class': None, 'cache_state': violation.get('cache_state'),
            'previous_op': violation.get('previous_op'),
            'class_key': [violation.get('clause'), violation.get('cache_state')]}
