"""C15 - debugging never changes the program and stops exactly where asked (DESIGN.md 5.9)

debugsim: the debugger is a second party interleaved with the engine.  A simulated user (seeded, adaptive) replaces
the prompt seam (breakpoints.ask_for_command / show_message) and takes a turn of arbitrary length at every pause;
the reference machine is advanced in lock-step by the debugger PROTOCOL (breakpoint set, armed step count, handler
dropped after continue-all), which fixes the exact op indices at which a pause must occur.
"""
import copy
import random
import re
import sys

from checks import _engine_base as B
from checks._engine_base import setup_main, config_class, TIME_NOTE  # noqa
from sim import enginesim, case as C, kernel, fjmodel, build
from sim import gen as G

ID = 'C15'
LEVEL = 'exploration'
RULE = ('programs: sim/gen.py images that run 2..300 ops (IO included, ops at segment ends that output biased in); a '
        'synthetic label table written with the real save_debugging_labels; breakpoints by address, exact label and '
        'substring resolved by the real get_breakpoint_handler; a seeded adaptive user issuing step / skip N (decimal, '
        'hex, 0, negative, garbage, beyond the end) / continue / continue-all / read (address, label, :bN: :hN: :BN: '
        'indexed, :f: :j:, unknown, out-of-segment, unaligned) / help / unknown / empty / quit / EOF / Ctrl-C at the '
        'prompt. evaluations = debug sessions; non-trivial: at least one pause happened; distinct = digest of (case, '
        'transcript of commands and pause points)')
STATE_MEASURE = 'distinct (command, protocol state before, pause reason after) triples'
ASSUMPTIONS = ['reference machine = meaning of the statement; the pause rule is: pause before op k iff the handler is '
               'alive and (k == armed count or ip_k is a breakpoint)', 'read values are decoded in the harness from the '
               'documented variable layout (dbit = w + #w, stride 2w)', '<= 300 ops, <= 40 prompts per session']
COMPONENTS = {'real': ['flipjump.debug (quickstart) -> get_breakpoint_handler -> fjm_run.run/_run_featured -> '
                       'handle_breakpoint / query_user_for_debug_action / apply_debug_action / handle_read_memory',
                       'save_debugging_labels / load_debugging_labels', 'undebugged runs on native, fast, featured'],
              'stub': ['the terminal (ask_for_command / show_message replaced by the simulated user)', 'the IO device (SimDevice)'],
              'oracle': ['sim/fjmodel.py stepped by the debugger protocol']}


def setup_worker():
    B.setup_worker()


def plan(tier):
    if tier == 'thorough':
        return {'cases': 1200000, 'chunk': 500, 'budget_s': 1200, 'case_timeout_s': 60, 'minimise_budget_s': 120}
    return {'cases': 60000, 'chunk': 250, 'budget_s': 70, 'case_timeout_s': 60, 'minimise_budget_s': 60}


# ------------------------------------------------------------------------------------------ generation

def bias_end_ops(rng, case):
    """make it likely that an op at the very end of a segment outputs (its jump word lies outside the segment)"""
    w = case['w']
    ww = w.bit_length() - 1
    seg = rng.choice(case['segments'])
    d = len(seg['data'])
    if d < 4 or d != seg['length']:
        return None
    kind = rng.random()
    if kind < 0.5:
        # aligned op on the last word: flip word = output bit
        seg['data'][d - 1] = 2 * w + rng.randrange(2)
        return (seg['start'] + d - 1) << ww
    # unaligned op whose jump word reaches past the end
    off = rng.randrange(1, w)
    a = (seg['start'] + d - 2) << ww
    f = 2 * w + rng.randrange(2)
    mask = (1 << w) - 1
    lo = seg['data'][d - 2] & ((1 << off) - 1)
    seg['data'][d - 2] = (lo | (f << off)) & mask
    seg['data'][d - 1] = (f >> (w - off)) & mask
    return a + off


def gen_real(rng, index, tier):
    """a debug session on a real program with its REAL label table (breakpoints by real label names / substrings)"""
    from sim import realprog
    for _ in range(4):
        case, labels = realprog.real_case(rng)
        if case is None:
            continue
        m, obs = enginesim.pre_run(rng, case, cap=700)
        if m is None:
            continue
        break
    else:
        return None
    trace = list(m.ip_trace)
    case['labels'] = labels
    case['real'] = True
    by_addr = {}
    for lab, a in labels.items():
        by_addr.setdefault(a, []).append(lab)
    executed_labels = [lab for ip in trace for lab in by_addr.get(ip, [])]
    bp_addrs = set(rng.sample(trace, min(len(trace), rng.choice([0, 1, 2]))))
    bp_labels = set(rng.sample(executed_labels, min(len(executed_labels), rng.choice([0, 1, 1, 2])))) if executed_labels else set()
    if rng.random() < 0.2 and labels:
        bp_labels.add(rng.choice(sorted(labels)))
    subs = []
    if executed_labels and rng.random() < 0.4:
        lab = rng.choice(executed_labels)
        i = rng.randrange(0, max(1, len(lab) - 3))
        subs.append(lab[i:i + rng.randint(3, 12)])
    if rng.random() < 0.15:
        subs.append(rng.choice(['stl.', 'output', 'IO', 'hex', 'loop', '---']))
    bp_contains = set(subs)
    if not (bp_addrs or bp_labels or bp_contains):
        bp_addrs.add(rng.choice(trace))
    case['bp'] = {'addresses': sorted(bp_addrs), 'labels': sorted(bp_labels), 'contains': sorted(bp_contains)}
    case['user_seed'] = rng.getrandbits(32)
    case['last_ops'] = rng.choice([None, 3, 10])
    case['use_debug_file'] = True
    case['model_cap'] = 800
    return case


def gen(rng, index, tier):
    if index % 10 == 4:
        return gen_real(rng, index, tier)
    for _ in range(8):
        case, meta = G.gen_case(rng, 'c15')
        case['tags'] = meta['tags']
        target = None
        if rng.random() < 0.35:
            target = bias_end_ops(rng, case)
            if target is not None and len(case['segments'][0]['data']) >= 2:
                # send some op there: op 0 jumps to it with probability
                if rng.random() < 0.6:
                    case['segments'][0]['data'][1] = target
        m, obs = enginesim.pre_run(rng, case, cap=300)
        if m is None or obs['model_ops'] < 1:
            continue
        break
    else:
        return None
    w = case['w']
    trace = list(m.ip_trace)
    # ---- label table
    labels = {}
    names = ['main', 'loop', 'loop2', 'xloop', 'f---g---loop', 'data', 'end', 'a', 'ab', 'abc', 'z.y', 'stl.startup']
    rng.shuffle(names)
    addrs = trace[:20] + [rng.choice(G.gen_case.__globals__['_interesting_bits'](rng, _img_of(case), trace[:4]))
                          for _ in range(3)]
    for nm in names[:rng.randint(2, len(names))]:
        labels[nm] = rng.choice(addrs)
    case['labels'] = labels
    # vectors for read commands: labels on dense data
    dense = [(s['start'], len(s['data'])) for s in case['segments'] if len(s['data']) >= 8]
    if dense:
        st, d = rng.choice(dense)
        labels['vec'] = ((st + rng.randrange(0, d - 6)) & ~1) << (w.bit_length() - 1)
    # ---- breakpoints
    bp_addrs = set(rng.sample(trace, min(len(trace), rng.choice([0, 1, 1, 2, 3]))))
    if rng.random() < 0.2:
        bp_addrs.add(rng.choice(addrs))
    bp_labels = set(rng.sample(sorted(labels), min(len(labels), rng.choice([0, 0, 1, 2]))))
    if rng.random() < 0.15:
        bp_labels.add('no_such_label')
    bp_contains = set(rng.sample(['loop', 'a', 'b', 'x', 'f---', 'zz'], rng.choice([0, 0, 1, 2])))
    if not (bp_addrs or bp_labels or bp_contains):
        bp_addrs.add(trace[0] if rng.random() < 0.5 else rng.choice(trace))
    case['bp'] = {'addresses': sorted(bp_addrs), 'labels': sorted(bp_labels), 'contains': sorted(bp_contains)}
    case['user_seed'] = rng.getrandbits(32)
    case['last_ops'] = rng.choice([None, 0, 3, 10])
    case['use_debug_file'] = rng.random() < 0.9
    if rng.random() < 0.12:
        # a session armed BEFORE the run through the handler's own command interface (skip N / step issued at op 0) and
        # handed to the interpreter's entry point; half of them with no breakpoint at all
        case['pre_armed'] = rng.choice([1, 1, 2, 3, 5, rng.randint(1, max(1, obs['model_ops']))])
        if rng.random() < 0.5:
            case['bp'] = {'addresses': [], 'labels': [], 'contains': []}
    return case


def _img_of(case):
    img = G.Img(case['w'])
    for s in case['segments']:
        img.segs.append([s['start'], s['length'], len(s['data'])])
    return img


# ------------------------------------------------------------------------------------------ the simulated user

class Quit(Exception):
    pass


class SimUser:
    def __init__(self, case, model, model_dev, real_dev, breakpoints):
        self.case = case
        self.w = case['w']
        self.rng = random.Random(case['user_seed'])
        self.m = model
        self.mdev = model_dev
        self.rdev = real_dev
        self.B = breakpoints
        self.armed = None
        self.alive = True
        self.model_done = None          # termination tuple once the model terminated
        self.expect_pause = None        # (count, ip) where the next pause must occur, or None
        self.violation = None
        self.transcript = []
        self.states = set()
        self.prompts = 0
        self.pauses = 0
        self.in_pause = False
        self.last_cmd = None
        self.pending_read = None
        self.quit_at = None
        self.issued = []
        if case.get('pre_armed') is not None:
            self.armed = case['pre_armed']      # the session was armed (skip N / step at op 0) before the run began
        self.advance()

    # ---- protocol: run the model to the next expected pause
    def advance(self):
        self._advance_after_step()

    def fail(self, clause, expected, observed):
        if self.violation is None:
            self.violation = {'clause': clause, 'expected': expected, 'observed': observed}

    # ---- seam: show_message
    def show(self, body_message, title_message):
        if title_message in ('Breakpoint', 'Debug Step'):
            self.on_pause(body_message, title_message)
        elif self.pending_read is not None:
            self.on_read_result(body_message, title_message)

    def on_pause(self, body, title):
        self.pauses += 1
        self.in_pause = True
        # the debugger's own view of where it stopped: the frame of its prompt routine (found by what it holds, not by
        # its name). Not finding it is a broken seam of the harness - an error of the machinery, never a verdict.
        fr = sys._getframe(2)
        while fr is not None and not all(k in fr.f_locals for k in ('ip', 'op_counter', 'mem')):
            fr = fr.f_back
        if fr is None:
            raise kernel.HarnessError('C15: no caller frame holds ip / op_counter / mem at a debugger pause')
        ip, cnt, mem = fr.f_locals['ip'], fr.f_locals['op_counter'], fr.f_locals['mem']
        self.cur = (cnt, ip, mem)
        reason = 'bp' if ip in self.B else 'step'
        self.states.add(f"{self.last_cmd}|armed={'y' if self.armed is not None else 'n'}|pause:{reason}")
        self.transcript.append(('pause', cnt, ip))
        if self.expect_pause is None:
            self.fail('unexpected-pause', 'no pause (model: ' + str(self.model_done) + ')', [cnt, ip])
            return
        if (cnt, ip) != self.expect_pause:
            self.fail('pause-position', list(self.expect_pause), [cnt, ip])
            return
        # the banner, where it is recognised (its wording is not part of the property: a differently worded banner is
        # simply not judged; what it says about the position, in the current format, must be true)
        mt = re.search(r'(?<![\d,._x])(\d+) ops executed', body or '')
        ma = re.search(r'Address (0x[0-9a-f]+)\b', body or '')
        if mt and int(mt.group(1)) != cnt:
            self.fail('banner-count', cnt, int(mt.group(1)))
        if ma and int(ma.group(1), 16) != ip:
            self.fail('banner-address', ip, int(ma.group(1), 16))
        self.check_state('memory-at-pause')

    def check_state(self, clause):
        cnt, ip, mem = self.cur
        m = self.m
        for a in m.touched:
            if mem.memory.get(a, 0) != m.mem.get(a, 0):
                self.fail(clause, {'word': a, 'value': m.mem.get(a, 0)}, mem.memory.get(a, 0))
                return
        if self.rdev.log != self.mdev.log:
            self.fail('device-log-at-pause', len(self.mdev.log), len(self.rdev.log))

    # ---- reads
    def expected_read(self, target):
        """(kind, value) per the documented formats, from the model memory; kind 'value' or 'error'"""
        w = self.w
        m = self.m
        labels = self.case['labels'] if self.case.get('use_debug_file') else {}
        mt = re.match(r':([bhBfj])(\d*):(\d+:)?([^:]*)', target)
        prefix = None
        t = target
        if mt:
            vt, vl, idx, t = mt.groups()
            prefix = (vt, int(vl) if vl else 1, int(idx[:-1]) if idx else 0)
        if t in labels:
            addr = labels[t]
        else:
            try:
                addr = int(t)
            except ValueError:
                try:
                    addr = int(t, 16)
                except ValueError:
                    return ('error', None)
        if addr % w != 0 or addr < 0 or addr >= (1 << w):
            return ('error', None)
        try:
            snapshot = set(m.touched)
            try:
                if prefix and prefix[0] in 'fj':
                    addr += w * (2 * prefix[1] * prefix[2] + (1 if prefix[0] == 'j' else 0))
                    prefix = None
                if prefix is None:
                    return ('value', m.get_word(addr))
                vt, n, index = prefix
                first = addr + 2 * n * index * w
                bits = {'b': 1, 'h': 4, 'B': 8}[vt]
                val = 0
                for i in reversed(range(n)):
                    word = m.get_word(first + i * 2 * w + w)
                    val = (val << bits) | ((word >> w.bit_length()) & ((1 << bits) - 1))
                return ('value', val)
            finally:
                m.touched.clear()
                m.touched.update(snapshot)
        except fjmodel.Fault:
            return ('error', None)

    def on_read_result(self, body, title):
        kind, val = self.pending_read
        self.pending_read = None
        mt = re.search(r'= (\d+)  \(or 0x', body)
        if kind == 'value':
            if mt:
                if int(mt.group(1)) != val:
                    self.fail('read-value', val, int(mt.group(1)))
            else:
                # not the current output format: the answer must at least show the true value, in decimal or hex
                shown = {int(x, 16) for x in re.findall(r'0[xX][0-9a-fA-F]+', body)} | \
                        {int(x) for x in re.findall(r'(?<![\w.])\d+(?![\w.])', body)}
                if val not in shown:
                    self.fail('read-value', val, 'not shown: ' + str(title) + ': ' + body[:120])
        elif mt:
            self.fail('read-value', 'an error message', int(mt.group(1)))
        self.check_state('memory-after-read')

    def gen_read_target(self):
        r = self.rng
        w = self.w
        labels = sorted(self.case['labels'])
        if len(labels) > 40:
            labels = r.sample(labels, 40)
        cnt, ip, mem = self.cur
        base = r.choice([ip, ip + w, r.choice(sorted(self.case['labels'].values()) or [0]),
                         (r.choice(self.case['segments'])['start']) * w, 0, 2 * w, 3 * w])
        base -= base % w
        k = r.random()
        if k < 0.25:
            return r.choice([str(base), hex(base), str(base).zfill(len(str(base)) + r.choice([1, 2])), '0X%X' % base])
        if k < 0.45 and labels:
            return r.choice(labels)
        if k < 0.7:
            t = r.choice(labels) if labels and r.random() < 0.6 else r.choice([str(base), hex(base)])
            vt = r.choice('bhB')
            n = r.choice(['', '1', '2', '4', '8'])
            idx = r.choice(['', '', '0:', '1:', '3:'])
            return f':{vt}{n}:{idx}{t}'
        if k < 0.8:
            t = r.choice(labels) if labels and r.random() < 0.6 else hex(base)
            return f":{r.choice('fj')}{r.choice(['', '1', '2'])}:{r.choice(['', '1:', '2:'])}{t}"
        if k < 0.87:
            return r.choice(['nolabel', 'main2', ':q:x', '0xZZ', '-' + str(w), str(base + 3), str(1 << w)])
        seg = r.choice(self.case['segments'])
        return hex((seg['start'] + seg['length'] + r.choice([0, 1, 2, 50])) * w)      # just outside a segment

    # ---- seam: ask_for_command
    def ask(self, prompt):
        if not self.in_pause:
            # a prompt without a recognised banner in front of it (the banner's titles are not part of the property):
            # being asked for a command IS the pause
            self.on_pause(None, None)
        self.prompts += 1
        script = self.case.get('commands')
        if script is not None:
            raw = script[self.prompts - 1] if self.prompts - 1 < len(script) else 'ca'
        elif self.violation is not None or self.prompts > 40:
            raw = 'ca'
        else:
            raw = self.draw_command()
        self.issued.append(raw)
        return self.dispatch(raw)

    def draw_command(self):
        r = self.rng
        k = r.random()
        if k < 0.22:
            return r.choice(['s', 'step', 'S', ' step '])
        if k < 0.36:
            n = r.choice([1, 1, 2, 3, 5, 10, 17, 200, 1000])
            return r.choice(['s {}', 'skip {}', 's 0x{:x}', 'skip 0x{:x}']).format(n)
        if k < 0.42:
            return r.choice(['s 0', 'skip -3', 's x', 'skip 1.5', 's 0x', 'skip'])
        if k < 0.55:
            return r.choice(['c', 'cont', 'continue', 'C'])
        if k < 0.59:
            return r.choice(['c*', 'ca', 'continue all', 'CA'])
        if k < 0.80:
            return r.choice(['r ', 'read ']) + self.gen_read_target()
        if k < 0.84:
            return r.choice(['h', 'help', '?'])
        if k < 0.88:
            return r.choice(['foo', 'x 1', 'continue now', 'r'])
        if k < 0.92:
            return ''
        if k < 0.95:
            return r.choice(['q', 'quit', 'exit'])
        if k < 0.975:
            return None
        return '^C'

    def dispatch(self, raw):
        """interpret the command by the DOCUMENTED grammar (the debugger's help text), update the protocol state and
        hand the raw line to the debugger"""
        if raw is None:
            return self.resume(None)
        if raw == '^C':
            self.resume('^C')
            raise KeyboardInterrupt()
        line = raw.strip()
        self.transcript.append(('cmd', raw))
        if not line:
            return raw
        tokens = line.split()
        command, arg = tokens[0].lower(), (tokens[1] if len(tokens) > 1 else None)
        if command in ('r', 'read') and arg is not None:
            target = ' '.join(tokens[1:])
            self.pending_read = self.expected_read(target)
            self.states.add(f"read|{self.pending_read[0]}|{target.split(':')[1][:1] if target.startswith(':') else 'plain'}")
            return raw
        self.transcript.pop()
        if command in ('s', 'step') and arg is None:
            return self.resume(raw)
        if command in ('s', 'skip') and arg is not None:
            try:
                n = int(arg, 0)
            except ValueError:
                n = None
            if n is not None and n > 0:
                return self.resume(raw, skip=n)
        elif command in ('c', 'cont', 'continue') and arg is None:
            return self.resume(raw)
        elif command in ('c*', 'ca') or line.lower() == 'continue all':
            return self.resume(raw)
        elif command in ('q', 'quit', 'exit'):
            return self.resume(raw)
        self.transcript.append(('cmd', raw))      # help / unknown / malformed: the debugger re-prompts
        return raw

    def resume(self, cmd, skip=None):
        """the user picked a command that ends this pause: update the protocol state and advance the model"""
        self.transcript.append(('cmd', cmd))
        self.in_pause = False
        cnt = self.cur[0] if hasattr(self, 'cur') else 0
        c = (cmd or '').strip().lower()
        self.last_cmd = c.split()[0] if c else 'eof'
        if cmd is None or c in ('q', 'quit', 'exit', '^c'):
            self.quit_at = cnt
            self.expect_pause = None
            self.model_done = ('keyboard-interrupt', None)
            return cmd if cmd != '^C' else None
        if skip is not None:
            self.armed = cnt + skip
        elif c in ('s', 'step'):
            self.armed = cnt + 1
        elif c in ('c', 'cont', 'continue'):
            self.armed = None
        else:
            self.armed = None
            self.alive = False
        # the op at the pause point executes now; the next check is before the following op
        from flipjump.utils.exceptions import IOReadOnEOF
        if self.model_done is None:
            r = fjmodel.step_outcome(self.m, self.mdev, IOReadOnEOF)
            if r is not None:
                self.model_done = r
        self._advance_after_step()
        return cmd

    def _advance_after_step(self):
        from flipjump.utils.exceptions import IOReadOnEOF
        m = self.m
        while True:
            if self.model_done is not None:
                self.expect_pause = None
                return
            if self.alive and (self.armed == m.count or m.ip in self.B):
                self.expect_pause = (m.count, m.ip)
                return
            r = fjmodel.step_outcome(m, self.mdev, IOReadOnEOF)
            if r is not None:
                self.model_done = r
            if m.count > self.case.get('model_cap', 400):
                self.model_done = ('cap', None)


# ------------------------------------------------------------------------------------------ run

def expected_breakpoints(case):
    labels = case['labels'] if case.get('use_debug_file') else {}
    bset = set(case['bp']['addresses'])
    for l in case['bp']['labels']:
        if l in labels:
            bset.add(labels[l])
    for lab, a in labels.items():
        if any(sub in lab for sub in case['bp']['contains']):
            bset.add(a)
    return bset


def run(case):
    import contextlib
    import io as _io
    import flipjump
    from flipjump.interpreter.debugging import breakpoints as bpmod
    from flipjump.utils.functions import save_debugging_labels
    from flipjump.utils.exceptions import IOReadOnEOF
    path = enginesim.image_path()
    C.write_image(case, path)
    dbg = None
    if case.get('use_debug_file'):
        dbg = path.with_suffix('.fjd')
        save_debugging_labels(dbg, case['labels'])
    Bset = expected_breakpoints(case)
    violations = []
    # ---- undebugged reference: model (and the three engines must agree with it - else it is C01's matter)
    exp0, m0 = C.run_model(case, last_ops=case['last_ops'], probe_mode='off', max_ops=case.get('model_cap', 400))
    if exp0['outcome'][0] == 'cap':
        return _res(case, [], {}, set(), 0, False, 'cap')
    base = dict(case, configs=[{'engine': 'native', 'probe': 'off', 'last_ops': case['last_ops']},
                               {'engine': 'fast', 'probe': 'off', 'last_ops': case['last_ops']},
                               {'engine': 'featured', 'probe': 'off', 'last_ops': case['last_ops']}])
    bv, info = enginesim.evaluate(base, ('outcome', 'ops', 'log'), path=path, model_cap=case.get('model_cap', 400))
    if bv:
        return _res(case, [], {'baseline_disagrees_skipped': 1}, set(), 0, False, 'baseline')
    steps = info['steps']
    # ---- the debug session
    m = fjmodel.Machine(case['w'], C.case_segments(case), C.case_words(case), None)
    mdev = C.SimDevice(case, 'off')
    mdev.attach_memory(fjmodel.ModelMemory(m))
    rdev = C.SimDevice(case, 'off')
    user = SimUser(case, m, mdev, rdev, Bset)
    old_ask, old_show = bpmod.ask_for_command, bpmod.show_message
    bpmod.ask_for_command, bpmod.show_message = user.ask, user.show
    C.set_engine_env({'engine': 'featured'})
    sink = _io.StringIO()
    outcome = None
    try:
        with contextlib.redirect_stdout(sink):
            try:
                if case.get('pre_armed') is not None:
                    from flipjump.interpreter import fjm_run
                    handler = bpmod.get_breakpoint_handler(dbg, set(case['bp']['addresses']) or None,
                                                           set(case['bp']['labels']) or None,
                                                           set(case['bp']['contains']) or None)
                    n = case['pre_armed']
                    handler.apply_debug_action(('step', 0) if n == 1 and case['user_seed'] & 1 else ('skip', n), 0)
                    st = fjm_run.run(path, io_device=rdev, print_time=False, breakpoint_handler=handler,
                                     last_ops_debugging_list_length=case['last_ops'])
                else:
                    st = flipjump.debug(path, dbg, breakpoints_addresses=set(case['bp']['addresses']) or None,
                                        breakpoints=set(case['bp']['labels']) or None,
                                        breakpoints_contains=set(case['bp']['contains']) or None,
                                        io_device=rdev, print_time=False, print_termination=False,
                                        last_ops_debugging_list_length=case['last_ops'])
                outcome = ('term', str(st.termination_cause), st.memory_error_address, st.op_counter)
            except kernel.WatchdogTimeout:
                raise
            except BaseException as e:  # noqa
                outcome = ('raise', type(e).__name__, str(e)[:100], None)
    finally:
        bpmod.ask_for_command, bpmod.show_message = old_ask, old_show
    # ---- verdict
    v = user.violation
    probes_extra = {}
    if v is None and user.expect_pause is not None and user.quit_at is None:
        # narrow, named relaxation: if the op at the expected pause cannot even fetch its flip word, the pause banner
        # cannot be drawn and the run may end with exactly the memory error that executing the op gives
        cnt_e, ip_e = user.expect_pause
        unreadable = False
        try:
            snap = set(m.touched)
            m.get_word(ip_e)
            m.touched.clear()
            m.touched.update(snap)
        except fjmodel.Fault as flt:
            unreadable = outcome == ('term', 'runtime-memory-error', flt.address, cnt_e)
        if unreadable:
            user.expect_pause = None
            user.model_done = ('runtime-memory-error', outcome[2])
            probes_extra['pause_on_unreadable_op'] = 1
        else:
            v = {'clause': 'missing-pause', 'expected': list(user.expect_pause), 'observed': C._j(outcome)}
    if v is None:
        if user.quit_at is not None:
            want = ('term', 'keyboard-interrupt', None, user.quit_at)
            if outcome != want:
                v = {'clause': 'quit-outcome', 'expected': C._j(want), 'observed': C._j(outcome)}
            elif rdev.log != mdev.log:
                v = {'clause': 'quit-output', 'expected': len(mdev.log), 'observed': len(rdev.log)}
        else:
            # not quit: the session must end exactly like the undebugged run
            want = ('term', exp0['outcome'][1], exp0['outcome'][2], exp0['ops'])
            if exp0['outcome'][0] != 'term':
                want = None
            if want is not None and outcome != want:
                v = {'clause': 'debugged-vs-undebugged-termination', 'expected': C._j(want), 'observed': C._j(outcome)}
            elif rdev.log != exp0['log']:
                d = C.compare({'log': exp0['log']}, {'log': rdev.log}, ('log',))
                v = {'clause': 'debugged-vs-undebugged-output', 'expected': d[1] if d else None,
                     'observed': d[2] if d else None}
    if v is not None:
        v.update({'config': None, 'config_name': 'debug-session', 'transcript': C._j(user.transcript[-12:]),
                  'issued': list(user.issued)})
        violations.append(v)
    probes = {'pauses': user.pauses, 'prompts': user.prompts, f"w{case['w']}": 1,
              'sessions_with_pause': 1 if user.pauses else 0, 'quit_sessions': 1 if user.quit_at is not None else 0,
              'pre_armed_sessions': 1 if case.get('pre_armed') is not None else 0,
              'pre_armed_no_breakpoints': 1 if case.get('pre_armed') is not None and not Bset else 0}
    probes.update(probes_extra)
    for t in user.transcript:
        if t[0] == 'cmd':
            c = 'EOF' if t[1] is None else (t[1].strip().split()[0] if t[1].strip() else 'empty')
            probes['cmd_' + c.lower()[:8]] = probes.get('cmd_' + c.lower()[:8], 0) + 1
    return _res(case, violations, probes, user.states, steps + (outcome[3] or 0 if outcome else 0), user.pauses > 0,
                [user.transcript, outcome])


def _res(case, violations, probes, states, steps, nontrivial, extra):
    return {'violations': violations, 'probes': probes, 'faults': {}, 'states': states, 'steps': steps,
            'nontrivial': nontrivial,
            'digest': kernel.digest_of([case, [v['clause'] for v in violations], extra])}


def minimise(case, violation):
    """replace the adaptive user by the explicit command list it issued, then drop commands that do not resume the
    run (reads, help, unknown, empty) while the same clause persists"""
    import copy
    issued = violation.get('issued')
    if not issued:
        return case, violation
    want = violation['clause']

    def fails(c):
        try:
            r = run(c)
        except kernel.WatchdogTimeout:
            raise
        except Exception:
            return None
        for v in r['violations']:
            if v['clause'] == want:
                return v
        return None
    best = copy.deepcopy(case)
    best['commands'] = list(issued)
    bv = fails(best)
    if bv is None:
        return case, violation
    i = len(best['commands']) - 1
    tries = 0
    while i >= 0 and tries < 60:
        c2 = copy.deepcopy(best)
        del c2['commands'][i]
        tries += 1
        v = fails(c2)
        if v is not None:
            best, bv = c2, v
        i -= 1
    return best, bv


def signature(case, violation):
    sig = {'clause': violation.get('clause'), 'config_class': None, 'w': case['w']}
    # does the op at the violating pause have its jump word (partly) outside every segment?
    try:
        tr = violation.get('transcript') or []
        pauses = [t for t in tr if t[0] == 'pause']
        if violation.get('clause') == 'missing-pause':
            pauses = [('pause',) + tuple(violation['expected'])]
        if pauses:
            cnt, ip = pauses[-1][1], pauses[-1][2]
            w = case['w']
            ww = w.bit_length() - 1
            segs = [(s['start'], s['start'] + s['length']) for s in case['segments']]

            def inseg(a):
                return any(s <= a < e for s, e in segs)
            a = (ip + w) >> ww
            need = [a] if (ip & (w - 1)) == 0 else [a, a + 1]
            sig['paused_op_jump_word_outside_segment'] = not all(inseg(x) for x in need)
            f0 = ip >> ww
            needf = [f0] if (ip & (w - 1)) == 0 else [f0, f0 + 1]
            sig['paused_op_flip_word_outside_segment'] = not all(inseg(x) for x in needf)
    except Exception as e:
        sig['signature_error'] = repr(e)
    return sig
