"""C19 - devices see the same program memory under every engine (DESIGN.md 5.8)

Two workloads.  (a) script: the scripted device reads and writes in-segment program memory (words and packed
bytes) at arbitrary call indices while the program runs - the reference machine executes the same script in
lock-step, so a device write that changes control flow is followed exactly.  (b) screen: generated programs emit
a screen command stream bit by bit with the framebuffer and palette in program memory; the REAL InMemoryScreen
(alone or inside the real PcIO + KeyboardIO) decodes it on every engine and is compared with a reference decoder
written from the documented layout running on the reference machine's memory.
"""
import copy

from checks import _engine_base as B
from checks._engine_base import setup_main, setup_worker, config_class, TIME_NOTE  # noqa
from sim import enginesim, case as C, kernel, fjmodel, screen
from sim import gen as G

ID = 'C19'
LEVEL = 'exploration'
FIELDS = ('outcome', 'ops', 'last_ops', 'log', 'final')
RULE = ('(a) sim/gen.py images with frequent IO + a seeded device script: call index -> read_word / write_word / '
        'read_data_byte / write_data_byte at in-segment addresses biased to the running op\'s own words, the next op, '
        'the input word, segment edges, window and page edges, zero tails, far segments; (b) generated straight-line '
        'programs driving the real screen device with valid and malformed command streams at w in {16,32,64}. every '
        'case on native (flat, small window, forced paged, ring), fast, featured. non-trivial: at least one device '
        'memory access or one frame happened; distinct = digest of (case, outcome)')
STATE_MEASURE = 'distinct (engine/storage class, action kind or screen command class, address class) triples'
ASSUMPTIONS = ['device writes stay inside segments (the statement restricts itself to in-segment addresses)',
               'reference screen decoder sim/screen.py RefScreen is the documented layout',
               'reference machine = meaning of the statement']
COMPONENTS = dict(B.COMPONENTS)
COMPONENTS = {'real': B.COMPONENTS['real'] + ['InMemoryScreen', 'PcIO', 'KeyboardIO + ScriptedKeyEventSource',
                                              'DeviceMemory.read_data_byte/write_data_byte'],
              'stub': B.COMPONENTS['stub'] + ['ScreenIO clock (time.time_ns)', 'pygame window (not installed; PcIO is '
                                              'built from headless components)'],
              'oracle': B.COMPONENTS['oracle'] + ['sim/screen.py RefScreen']}


def plan(tier):
    if tier == 'thorough':
        return {'cases': 700000, 'chunk': 400, 'budget_s': 1200, 'case_timeout_s': 60, 'minimise_budget_s': 240}
    return {'cases': 40000, 'chunk': 200, 'budget_s': 70, 'case_timeout_s': 60, 'minimise_budget_s': 90}


# ------------------------------------------------------------------------------------------ (a) scripts

def addr_classes(rng, case, m):
    """in-segment word addresses worth touching, by class"""
    w = case['w']
    ww = w.bit_length() - 1
    cls = {}
    segs = case['segments']

    def inseg(a):
        return any(s['start'] <= a < s['start'] + s['length'] for s in segs)
    ops = []
    for ip in m.ip_trace[:40]:
        a = ip >> ww
        ops += [a, a + 1]
    cls['op_words'] = [a for a in ops if inseg(a)]
    cls['input_word'] = [a for a in (2, 3) if inseg(a)]
    edges = []
    for s in segs:
        st, n, d = s['start'], s['length'], len(s['data'])
        edges += [st, st + 1, st + n - 1, st + n - 2, st + d - 1, st + d]
        if n > d:
            cls.setdefault('zero_tail', []).append(st + rng.randrange(d, n))
        if st >= G.FLAT_DEFAULT or st >= (1 << 20):
            cls.setdefault('far', []).extend([st, st + n - 1])
        for p in range(st // G.PAGE, (st + n - 1) // G.PAGE + 1):
            for a in (p * G.PAGE - 1, p * G.PAGE, p * G.PAGE + G.PAGE - 1):
                if inseg(a):
                    cls.setdefault('page_edge', []).append(a)
    cls['seg_edges'] = [a for a in edges if inseg(a)]
    words = C.case_words(case)
    mg = [a for a, v in words.items() if v == G.MAGIC]
    if mg:
        cls['magic'] = mg
    rnd = []
    for _ in range(6):
        s = rng.choice(segs)
        rnd.append(s['start'] + rng.randrange(s['length']))
    cls['random_inseg'] = rnd
    if len(segs) > 30:
        # an image spread over many pages: one word of every segment (also of the reserve-only ones, whose pages do not
        # exist before a device touches them)
        cls['spread'] = [s['start'] + rng.randrange(s['length']) for s in segs]
    return {k: v for k, v in cls.items() if v}


def gen_script(rng, case, m, ncalls):
    w = case['w']
    ww = w.bit_length() - 1
    cls = addr_classes(rng, case, m)
    names = sorted(cls)
    weights = {'op_words': 6, 'input_word': 2, 'seg_edges': 3, 'zero_tail': 2, 'far': 3, 'page_edge': 3, 'magic': 2,
               'random_inseg': 2, 'spread': 40}
    bag = [n for n in names for _ in range(weights.get(n, 1))]
    op_targets = [ip for ip in m.ip_trace[:40]]
    script = {}
    used = set()
    reread = []
    segs = case['segments']

    def byte_op(a):
        # the packed byte of the op at word a lives in word a+1: mostly dw-aligned ops, sometimes an op on an odd
        # word - but only when word a+1 is still inside the segment (device accesses stay in-segment)
        if rng.random() < 0.3 and any(s['start'] <= a and a + 1 < s['start'] + s['length'] for s in segs):
            return a << ww
        return (a & ~1) << ww
    for c in (['attach'] if rng.random() < 0.3 else []) + list(range(ncalls + 2)):
        if c != 'attach' and rng.random() < 0.3:
            continue
        acts = []
        for _ in range(rng.choice([1, 2, 2, 3, 4]) * (6 if 'spread' in cls else 1)):
            cname = rng.choice(bag)
            a = rng.choice(cls[cname])
            r = rng.random()
            if r < 0.35:
                acts.append(['rw', a])
            elif r < 0.7:
                vr = rng.random()
                if vr < 0.35 and op_targets:
                    v = rng.choice(op_targets)                # redirect a jump word to a real op
                elif vr < 0.5:
                    v = rng.randrange(4 * w)
                elif vr < 0.62 and w == 64:
                    v = rng.choice([G.MAGIC, G.MAGIC, G.MAGIC ^ (1 << rng.randrange(64))])
                elif vr < 0.7:
                    v = 0
                elif vr < 0.8:
                    # wider than w bits / negative: the documented contract is 'the value is masked to w bits'
                    v = rng.choice([(rng.getrandbits(64) | (1 << w)), -1 - rng.getrandbits(w), (1 << w), (1 << 63) | rng.getrandbits(w)])
                else:
                    v = rng.getrandbits(w)
                acts.append(['ww', a, v])
                if v == G.MAGIC or rng.random() < 0.15:
                    reread.append(a)          # read the same word back at a later call
            elif r < 0.85:
                opa = byte_op(a)
                acts.append(['rb', opa])
            else:
                opa = byte_op(a)
                acts.append(['wb', opa, rng.randrange(256)])
            used.add(cname + ':' + acts[-1][0])
        if reread and rng.random() < 0.7:
            acts.append(['rw', reread.pop(0)])
        script[str(c)] = acts
    return script, sorted(used)


def script_configs(rng, case):
    cfgs = [{'engine': 'native'}, {'engine': 'fast'}, {'engine': 'featured'},
            {'engine': 'native', 'env': {'FLIPJUMP_NO_FLAT': '1'}}]
    extra = [{'engine': 'native', 'flat_max_words': rng.choice([1, 2, 3, 5, 7, 16, G.PAGE - 1, G.PAGE + 1])},
             {'engine': 'native', 'last_ops': rng.choice([1, 3, 10])},
             {'engine': 'native', 'last_ops': rng.choice([1, 3, 10]), 'env': {'FLIPJUMP_NO_FLAT': '1'}},
             {'engine': 'native', 'env': {'FLIPJUMP_MEASURE_SPECULATION': '1'}},
             {'engine': 'native', 'env': {'FLIPJUMP_TEST_FLAT_ALLOC_FAIL': '1'}},
             {'engine': 'fast', 'last_ops': 4}]
    segs = case['segments']
    edge = rng.choice(segs)
    extra.append({'engine': 'native', 'flat_max_words': min(1 << 22, max(1, edge['start'] + rng.choice([-1, 0, 1, 2])))})
    cfgs += rng.sample(extra, 3)
    for c in cfgs:
        c['probe'] = rng.choice(['touched', 'off'])
    return cfgs


def gen(rng, index, tier):
    if rng.random() < (0.3 if tier == 'thorough' else 0.1):
        for _ in range(4):
            case = screen.build_screen_case(rng, rng.choice([16, 32, 32, 64, 64]))
            if case is not None:
                case['configs'] = script_configs(rng, case)
                lo, hi = case['screen']['fb_words']
                plo, phi = case['screen']['pal_words']
                # native hybrid storage whose flat window ends INSIDE the framebuffer / the palette
                case['configs'].append({'engine': 'native', 'flat_max_words': rng.randrange(lo + 1, max(lo + 2, hi)),
                                        'probe': 'off'})
                if rng.random() < 0.5:
                    case['configs'].append({'engine': 'native', 'flat_max_words': rng.randrange(plo + 1, max(plo + 2, phi)),
                                            'probe': 'off', 'last_ops': rng.choice([None, 3])})
                if rng.random() < 0.4:
                    add_prior_run(rng, case)
                return case
        return None
    for _ in range(6):
        case, meta = G.gen_case(rng, 'c19')
        case['tags'] = meta['tags']
        case['kind'] = 'script'
        m, obs = enginesim.pre_run(rng, case)
        if m is None:
            continue
        ncalls = sum(1 for e in obs['log'] if e[0] in ('w', 'r'))
        if ncalls == 0:
            continue
        script, used = gen_script(rng, case, m, ncalls)
        case['script'] = script
        case['script_classes'] = used
        m2, obs2 = enginesim.pre_run(rng, case)       # with the script: control flow may have changed
        if m2 is None:
            continue
        case['configs'] = script_configs(rng, case)
        return case
    return None


# ------------------------------------------------------------------------------------------ (b) screen

def add_prior_run(rng, case):
    """history: the SAME device object has served an earlier run (usually at another memory width) before it is
    attached to this one. Only earlier runs that end on a command boundary are used, so what the second stream means
    is fixed by the documented layout: the device's picture state carries over, the address width is that of the run
    it is attached to now."""
    others = [x for x in (16, 32, 64) if x != case['w']]
    for _ in range(4):
        prior = screen.build_screen_case(rng, rng.choice(others + others + [case['w']]))
        if prior is None or prior['screen']['device'] != case['screen']['device']:
            continue
        exp, _m, dev = run_screen_model(prior)
        if exp['outcome'][0] != 'term' or dev.ref.buf or dev.ref.nbits:
            continue
        prior.pop('configs', None)
        prior['screen'].pop('png', None)
        case['screen'].pop('png', None)
        case['prior'] = prior
        return


class _ModelScreenDevice:
    """device for the reference machine: RefScreen over the model memory"""

    def __init__(self, w, kind):
        self.kind = kind
        self.ref = None
        self.w = w
        self.bits = []
        self.frame_at = []
        self.cmd_start = 0
        self.fired = None

    def attach_memory(self, mem, w=None):
        if self.ref is None:
            self.ref = screen.RefScreen(self.w, mem)
        else:                       # the same device, attached to a later run: picture state stays, width and memory change
            self.w = w or self.w
            self.ref.w, self.ref.ww, self.ref.mem = self.w, self.w.bit_length() - 1, mem

    def write_bit(self, bit):
        if len(self.bits) % 8 == 0 and not self.ref.buf:
            self.cmd_start = len(self.bits)         # the first bit of a command byte
        self.bits.append(1 if bit else 0)
        self.ref.write_bit(bit)
        while len(self.frame_at) < len(self.ref.frames):
            self.frame_at.append(len(self.bits))        # this frame was presented by the bit just written

    def read_bit(self):
        from flipjump.utils.exceptions import IOReadOnEOF
        if self.kind == 'pc':
            return False          # a keyboard with no events: status nibble 0 forever
        raise IOReadOnEOF('screen has no input')


def run_screen_model(case):
    from flipjump.utils.exceptions import IOReadOnEOF
    w = case['w']
    m = fjmodel.Machine(w, C.case_segments(case), C.case_words(case), None)
    prior = case.get('prior')
    prior_outcome = None
    if prior:
        pm = fjmodel.Machine(prior['w'], C.case_segments(prior), C.case_words(prior), None)
        dev = _ModelScreenDevice(prior['w'], case['screen']['device'])
        dev.attach_memory(fjmodel.ModelMemory(pm))
        cause, addr = fjmodel.run(pm, dev, IOReadOnEOF, 60000)      # chosen at generation time to terminate
        prior_outcome = ('term', cause, addr)
        dev.bits, dev.frame_at, dev.ref.frames, dev.cmd_start = [], [], [], 0
        dev.attach_memory(fjmodel.ModelMemory(m), w)
    else:
        dev = _ModelScreenDevice(w, case['screen']['device'])
        dev.attach_memory(fjmodel.ModelMemory(m))
    try:
        cause, addr = fjmodel.run(m, dev, IOReadOnEOF, 60000)
        outcome = ('term', cause, addr)
    except screen.RefScreenError:
        outcome = ('raise', 'IODeviceException')
    except ValueError:
        outcome = ('raise', 'FlipJumpRuntimeException')
    return {'outcome': outcome, 'ops': m.count if outcome[0] == 'term' else None, 'bits': dev.bits,
            'frames': dev.ref.frames, 'frame_at': dev.frame_at, 'cmd_start': dev.cmd_start,
            'prior_outcome': prior_outcome}, m, dev


def run_screen_engine(case, cfg, path):
    from flipjump.interpreter import fjm_run
    C.set_engine_env(cfg)
    frames_dir = None
    if case['screen'].get('png'):
        import shutil
        frames_dir = C.scratch_dir() / 'frames'
        shutil.rmtree(frames_dir, ignore_errors=True)
    dev, scr = screen.make_real_screen_device(case['screen']['device'], frames_dir)
    prior_outcome = None
    if case.get('prior'):
        try:
            st = fjm_run.run(str(path) + '.prior', io_device=dev, last_ops_debugging_list_length=cfg.get('last_ops'),
                             profile=(cfg['engine'] == 'featured'), flat_max_words=cfg.get('flat_max_words'))
            prior_outcome = ('term', str(st.termination_cause), st.memory_error_address)
        except kernel.WatchdogTimeout:
            raise
        except BaseException as e:   # noqa
            prior_outcome = ('raise', type(e).__name__)
        scr.bits, scr.frames = [], []
    h0, c0 = len(scr.frame_hashes), scr.frame_count
    try:
        st = fjm_run.run(path, io_device=dev, last_ops_debugging_list_length=cfg.get('last_ops'),
                         profile=(cfg['engine'] == 'featured'), flat_max_words=cfg.get('flat_max_words'))
        outcome = ('term', str(st.termination_cause), st.memory_error_address)
        ops = st.op_counter
    except kernel.WatchdogTimeout:
        raise
    except BaseException as e:   # noqa
        outcome = ('raise', type(e).__name__)
        ops = None
    hashes_ok = len(scr.frame_hashes) - h0 == len(scr.frames) == scr.frame_count - c0
    if frames_dir is not None and hashes_ok:
        # the headless backend writes one PNG per presented frame: each must decode to palette[pixel index]
        files = sorted(frames_dir.glob('frame_*.png')) if frames_dir.exists() else []
        if len(files) != len(scr.frames):
            hashes_ok = False
        for f, (pix, pal, _rgb) in zip(files, scr.frames):
            try:
                w_, h_, rgb = screen.decode_png_rgb(f.read_bytes())
            except Exception:
                hashes_ok = False
                break
            want = [tuple(pal[i]) if i < len(pal) else (0, 0, 0) for i in pix]
            if rgb != want:
                hashes_ok = False
                break
    return {'outcome': outcome, 'ops': ops, 'bits': scr.bits, 'frames': scr.frames, 'hashes_ok': hashes_ok,
            'prior_outcome': prior_outcome}


def eval_screen(case):
    path = enginesim.image_path()
    C.write_image(case, path)
    if case.get('prior'):
        C.write_image(case['prior'], str(path) + '.prior')
    exp, m, _dev = run_screen_model(case)
    violations = []
    steps = 0
    for cfg in case['configs']:
        obs = run_screen_engine(case, cfg, path)
        steps += obs['ops'] or 0
        clause = None
        want = exp
        if exp['outcome'] == ('raise', 'IODeviceException') and obs['outcome'] == exp['outcome'] and \
                exp['cmd_start'] + 8 <= len(obs['bits']) < len(exp['bits']) and \
                obs['bits'] == exp['bits'][:len(obs['bits'])]:
            # a stream the documented layout rejects: the statement asks for a device error, not for the byte at which
            # it is raised. A device that gives up on the doomed command EARLIER than the reference decoder - anywhere
            # from its command byte on - is right too, with the frames that had been presented by then and none more.
            k = sum(1 for at in exp['frame_at'] if at <= len(obs['bits']))
            want = dict(exp, bits=obs['bits'], frames=exp['frames'][:k])
        for f, name in (('prior_outcome', 'earlier-run-on-the-same-device'), ('outcome', 'termination'),
                        ('ops', 'op-count'), ('bits', 'device-log'), ('frames', 'frames')):
            e_f = want[f]
            if e_f != obs[f]:
                clause = name
                e, o = e_f, obs[f]
                if f in ('bits', 'frames'):
                    e, o = {'len': len(e), 'last': C._j(e[-1:])}, {'len': len(o), 'last': C._j(o[-1:])}
                break
        if clause is None and not obs['hashes_ok']:
            clause, e, o = 'frame-hash-log', 'one hash and one correctly encoded PNG per presented frame', 'mismatch'
        if clause:
            violations.append({'clause': clause, 'config': cfg, 'config_name': enginesim.cfg_name(cfg),
                               'expected': C._j(e), 'observed': C._j(o), 'exp_outcome': C._j(exp['outcome']),
                               'obs_outcome': C._j(obs['outcome'])})
            break
    return violations, exp, m, steps


def run(case):
    if case.get('kind') == 'screen':
        violations, exp, m, steps = eval_screen(case)
        sc = case['screen']
        states = set()
        for cfg in case['configs']:
            states.add(f"{enginesim.cfg_class(cfg)}|screen|{sc['device']}|{exp['outcome'][1]}|frames{min(len(exp['frames']), 3)}")
        probes = {'screen_case': 1, 'screen_frames': len(exp['frames']), f"w{case['w']}": 1,
                  'screen_malformed_rejected': 1 if exp['outcome'][0] == 'raise' else 0,
                  'screen_device_' + sc['device']: 1, 'screen_png_frames_checked': len(exp['frames']) if sc.get('png') else 0,
                  'screen_device_reused': 1 if case.get('prior') else 0,
                  'screen_device_reused_other_width': 1 if case.get('prior') and case['prior']['w'] != case['w'] else 0}
        return {'violations': violations, 'probes': probes, 'faults': {}, 'states': states, 'steps': steps,
                'nontrivial': len(exp['frames']) > 0 or exp['outcome'][0] == 'raise',
                'digest': kernel.digest_of([case, [[v['clause'], v['config_name']] for v in violations],
                                            exp['outcome'], len(exp['frames'])])}
    violations, info = enginesim.evaluate(case, FIELDS)
    exp = next(iter(info['expected'].values()))
    accesses = sum(1 for e in exp['log'] if e[0] in ('rw', 'ww', 'rb', 'wb'))
    states = set()
    for cfg in case['configs']:
        for u in case.get('script_classes') or ():
            states.add(f"{enginesim.cfg_class(cfg)}|{u}")
    res = B.result_from(case, violations, info, exp, info['model'], extra_states=states)
    res['probes']['device_memory_accesses'] = accesses
    for e in exp['log']:
        if e[0] in ('rw', 'ww', 'rb', 'wb'):
            res['probes']['access_' + e[0]] = res['probes'].get('access_' + e[0], 0) + 1
    res['nontrivial'] = accesses > 0
    return res


def minimise(case, violation):
    if case.get('kind') == 'screen':
        c = copy.deepcopy(case)
        c['configs'] = [violation['config']]
        return c, violation
    return enginesim.minimise(case, violation, FIELDS)


def signature(case, violation):
    if case.get('kind') == 'screen':
        return {'clause': violation.get('clause'), 'config_class': enginesim.cfg_class(violation.get('config')),
                'w': case['w'], 'kind': 'screen'}
    sig = enginesim.signature(case, violation)
    sig['kind'] = 'script'
    return sig


def adequacy(tier, agg):
    return B.adequacy(tier, agg, ['device_memory_accesses', 'access_rw', 'access_ww', 'access_rb', 'access_wb', 'screen_case', 'screen_frames', 'screen_malformed_rejected', 'screen_device_reused_other_width', 'storage_flat', 'storage_hybrid', 'storage_paged'])
