"""C11 - the native engine is memory-safe for every image, input and knob (DESIGN.md 5.3)

The invariant monitor is AddressSanitizer + UndefinedBehaviorSanitizer on a build of the WORKING-TREE _fjcore.c
(with the allocation shim linked in); the simulator is the driver and the fault injector.  run_check.py re-execs
this check under LD_PRELOAD=libasan.  A sanitizer report aborts the worker; the kernel attributes the death to the
case in flight by re-running it alone.
"""
import copy
import ctypes
import os
import signal
import struct
import sys

from checks import _engine_base as B
from checks import c07 as C07
from checks._engine_base import config_class, TIME_NOTE  # noqa
from sim import build, enginesim, case as C, kernel
from sim import gen as G

ID = 'C11'
LEVEL = 'exploration'
VARIANT = 'asanshim'
FIELDS = ('outcome', 'ops', 'last_ops', 'log', 'final')
RULE = ('six seeded workloads on the ASan+UBSan build: (swarm) the C07 knob swarm; (fault) device callbacks that raise / '
        'return objects whose truth value raises; (raw) adversarial .fjm files written byte-wise: huge lengths, ranges '
        'ending at 2^64, start+length overflow, thousands of segments, unsorted/overlapping/duplicate/odd segments; '
        '(memapi) operation sequences on _fjcore.Memory: constructor knobs, add_segment/set_word/get_word/set_words '
        'with any 64-bit address, bad list items, run with any start_ip and ring length, run twice, __init__ on a live '
        'object; (devmem) device reads/writes at any 64-bit word address during callbacks; (alloc) the k-th '
        'malloc/calloc/realloc of a run fails, k enumerated over the allocations of the fault-free run; (bigline) straight-line programs of > 32768 distinct ops under the measurement loop (its per-ip table grows while the run holds pointers), and images spread over 33-72 pages (page-table growth). a case is '
        'non-trivial when native code executed at least one op or one API call failed; distinct = digest of the case')
STATE_MEASURE = 'distinct (workload, storage mode / API op kind, outcome class) tuples'
ASSUMPTIONS = ['gcc -O1 -fsanitize=address,undefined build of the working-tree source is representative of the shipped '
               'build for memory errors', 'leaks are not checked (LeakSanitizer cannot see through non-instrumented '
               'CPython)', 'pages touched per case <= 256, flat windows <= 2^22 words']
COMPONENTS = {'real': B.COMPONENTS['real'] + ['AddressSanitizer / UBSan runtime as the invariant monitor'],
              'stub': B.COMPONENTS['stub'] + ['allocator failures (sim/alloc_shim.c linked into the engine build)'],
              'oracle': ['no sanitizer report, process survives, every outcome is a termination cause or a Python '
                         'exception, callbacks\' refcounts unchanged; swarm/fault workloads also equal the reference machine']}

_shim = None


class _ShortStop(BaseException):
    pass


def setup_main():
    build.build_fjcore(VARIANT)
    build.build_helper('_verifsig')


def setup_worker():
    global _shim
    if 'libasan' not in os.environ.get('LD_PRELOAD', ''):
        raise kernel.HarnessError('C11 must run under LD_PRELOAD=libasan (run_check.py re-execs itself)')
    if 'flipjump.interpreter.fjm_run' not in sys.modules:
        build.install_fjcore(VARIANT)
    so = build.build_fjcore(VARIANT)
    _shim = ctypes.CDLL(str(so))
    _shim.verif_alloc_arm.argtypes = [ctypes.c_longlong]
    _shim.verif_alloc_count.restype = ctypes.c_longlong
    _shim.verif_alloc_failed.restype = ctypes.c_longlong
    _shim.verif_alloc_arm(-1)


def plan(tier):
    if tier == 'thorough':
        return {'cases': 300000, 'chunk': 100, 'budget_s': 1500, 'case_timeout_s': 60, 'minimise_budget_s': 120}
    return {'cases': 12000, 'chunk': 25, 'budget_s': 70, 'case_timeout_s': 60, 'minimise_budget_s': 60}


# ------------------------------------------------------------------------------------------ generators

U64 = (1 << 64) - 1


def any_addr(rng):
    r = rng.random()
    if r < 0.3:
        return rng.randrange(0, 64)
    if r < 0.5:
        return rng.choice([G.PAGE - 1, G.PAGE, G.PAGE + 1, (1 << 23) - 1, 1 << 23, (1 << 23) + 1])
    if r < 0.7:
        return (1 << rng.randrange(10, 64)) + rng.choice([-1, 0, 1])
    if r < 0.85:
        return rng.choice([U64, U64 - 1, U64 - G.PAGE, (1 << 63), (1 << 58) - 1, 1 << 58, (1 << 58) + 1])
    return rng.getrandbits(64)


def gen_raw(rng):
    """an adversarial .fjm written byte-wise"""
    w = rng.choice([8, 16, 32, 64])
    version = rng.choice([0, 1, 1, 2])
    nseg = rng.choice([1, 2, 3, 5, 40, 3000]) if rng.random() < 0.9 else 5000
    data = [rng.getrandbits(w) if rng.random() < 0.3 else rng.randrange(0, 8 * w) for _ in range(rng.choice([2, 4, 8, 32]))]
    data[0] = rng.choice([2 * w, 2 * w + 1, rng.randrange(8 * w)])
    data[1] = rng.choice([0, 2 * w, 4 * w, rng.randrange(8 * w)])
    segs = [[0, rng.choice([2, 4, len(data), 1 << 20, 1 << 40, U64, U64 - 1, 1 << 63]), 0, rng.choice([2, len(data) & ~1])]]
    mode = rng.choice(['huge', 'overflow', 'overlap', 'dup', 'odd', 'unsorted', 'many', 'top'])
    for i in range(nseg - 1):
        if mode == 'huge':
            st, ln = any_addr(rng) & ~1, rng.choice([1 << 40, 1 << 62, U64 - 1, U64])
        elif mode == 'overflow':
            st = any_addr(rng)
            ln = rng.choice([U64 - st + 1, U64 - st + 2, U64, (U64 - st + 1) & U64]) & U64
        elif mode == 'overlap':
            st, ln = rng.randrange(0, 64), rng.randrange(1, 64)
        elif mode == 'dup':
            st, ln = segs[-1][0], segs[-1][1]
        elif mode == 'odd':
            st, ln = rng.randrange(0, 200) | 1, rng.randrange(1, 50) | 1
        elif mode == 'unsorted':
            st, ln = (nseg - i) * 8, 4
        elif mode == 'top':
            st = U64 - rng.choice([0, 1, 2, 7, G.PAGE])
            ln = rng.choice([1, 2, U64 - st, U64 - st + 1]) & U64
        else:
            st, ln = 8 * (i + 1) + rng.choice([0, 0, 0, 1 << 30]), rng.choice([2, 4, 6])
        dl = rng.choice([0, 0, 2]) if ln >= 2 else 0
        segs.append([st & U64, ln & U64, rng.choice([0, 2]) if dl else 0, dl])
    if rng.random() < 0.3:
        rng.shuffle(segs)
    return {'kind': 'raw', 'w': w, 'version': version, 'segs': segs, 'data': data,
            'knob': rng.choice([None, None, 1, 2, 5, 1 << 10, 1 << 22]),
            'env': rng.choice([{}, {}, {'FLIPJUMP_NO_FLAT': '1'}, {'FLIPJUMP_MEASURE_SPECULATION': '1'}]),
            'last_ops': rng.choice([None, None, 0, 1, 10]), 'input_bits': [rng.randrange(2) for _ in range(rng.choice([0, 3, 16]))]}


def gen_memapi(rng):
    w = rng.choice([8, 16, 32, 64])
    ops = [['new', w, rng.choice([1, 1, 1, 0]), rng.choice([0, 0, 1, 2, 5, 1 << 10, 1 << 22, 1 << 62, U64])]]
    pages = 0
    for _ in range(rng.randint(3, 25)):
        r = rng.random()
        if r < 0.22:
            st = any_addr(rng)
            ln = rng.choice([0, 1, 2, 4, 100, 1 << 20, U64, (U64 - st + 1) & U64, (U64 - st) & U64, rng.getrandbits(64)])
            ops.append(['add_segment', st, ln])
        elif r < 0.4:
            if pages < 200:
                pages += 1
                ops.append(['set_word', any_addr(rng), rng.getrandbits(64)])
        elif r < 0.55:
            if pages < 200:
                pages += 1
                ops.append(['get_word', any_addr(rng)])
        elif r < 0.7:
            n = rng.choice([0, 1, 2, 5, 40])
            items = [rng.getrandbits(rng.choice([8, 64])) for _ in range(n)]
            bad = rng.random()
            if bad < 0.1 and items:
                items[rng.randrange(n)] = -1
            elif bad < 0.2 and items:
                items[rng.randrange(n)] = 1 << 64
            elif bad < 0.3 and items:
                items[rng.randrange(n)] = 'x'
            elif bad < 0.35 and items:
                items[rng.randrange(n)] = None
            if pages < 200:
                pages += 1 + n // G.PAGE
                st = any_addr(rng)
                if rng.random() < 0.5:
                    st = st & 0xFFFF
                ops.append(['set_words', st, items])
        elif r < 0.9:
            ops.append(['run', rng.choice([0, 0, 0, 1, 7, 2 * w, any_addr(rng)]),
                        rng.choice([0, 0, 1, 3, 10, -1, -5, 1 << 40, 1 << 62]),
                        rng.choice(['ok', 'ok', 'raise', 'badbool', 'none', 'eof']),
                        rng.choice([{}, {}, {'FLIPJUMP_NO_FLAT': '1'}, {'FLIPJUMP_MEASURE_SPECULATION': '1'},
                                    {'FLIPJUMP_TEST_FLAT_ALLOC_FAIL': '1'}, {'FLIPJUMP_FLAT_MAX_WORDS': '3'}])])
        elif r < 0.95:
            ops.append(['props'])
        else:
            ops.append(['reinit', rng.choice([8, 16, 32, 64, 7, 0]), rng.choice([0, 4, 1 << 22])])
    # make it likely that something runs: a tiny program at word 0
    if rng.random() < 0.8:
        prog = [rng.choice([2 * w, 2 * w + 1, rng.randrange(0, 16 * w)]), rng.choice([0, 4 * w, 2 * w, rng.randrange(16 * w)]),
                0, 0, rng.randrange(0, 16 * w), rng.choice([4 * w, 0, 6 * w]), 0, 0]
        ops.insert(1, ['add_segment', 0, rng.choice([2, 8, 8, 1 << 20])])
        ops.insert(2, ['set_words', 0, prog])
    return {'kind': 'memapi', 'w': w, 'ops': ops}


def gen_devmem(rng, tier):
    """a C07-like case whose device touches ANY 64-bit word address during callbacks"""
    for _ in range(6):
        case, meta = G.gen_case(rng, 'c11')
        case['tags'] = meta['tags']
        m, obs = enginesim.pre_run(rng, case)
        if m is None:
            continue
        ncalls = sum(1 for e in obs['log'] if e[0] in ('w', 'r'))
        if ncalls:
            break
    else:
        return None
    script = {}
    pages = 0
    for c in range(ncalls):
        acts = []
        for _ in range(rng.choice([1, 2, 4])):
            if pages > 120:
                break
            pages += 1
            a = any_addr(rng)
            acts.append(['rw', a] if rng.random() < 0.5 else ['ww', a, rng.getrandbits(case['w'])])
        script[str(c)] = acts
    case['script'] = script
    case['kind'] = 'devmem'
    case['probe_words'] = []
    cfgs = [{'engine': 'native'}, {'engine': 'native', 'env': {'FLIPJUMP_NO_FLAT': '1'}},
            {'engine': 'native', 'flat_max_words': rng.choice([1, 2, 5, 64])},
            {'engine': 'native', 'last_ops': 3}]
    case['configs'] = cfgs
    return case


def gen_bigline(rng):
    """a straight-line program of 33000..41000 distinct ops (each flips a scratch bit and jumps on), executed once: the measurement loop's per-ip shadow table and the page table have to grow while the run holds pointers"""
    w = 32
    dw = 2 * w
    n = rng.choice([32769, 33000, 35000, 40000])
    def slot(k):              # slot 1 (words 2,3) is the IO cell: an op there would read input
        return 0 if k == 0 else k + 1
    words = [0] * (2 * (n + 6))
    scratch = (n + 4) * dw
    for k in range(n):
        words[2 * slot(k)] = scratch + rng.randrange(dw)
        words[2 * slot(k) + 1] = slot(k + 1) * dw
    last = slot(n)            # the last op halts (jumps to itself)
    words[2 * last] = scratch
    words[2 * last + 1] = last * dw
    return {'kind': 'bigline', 'w': w, 'segments': [{'start': 0, 'length': len(words), 'data': words}], 'version': 1,
            'lzma_preset': 0, 'input_bits': [], 'script': {}, 'fault': None, 'probe_words': [],
            'n_ops': n, 'env': rng.choice([{'FLIPJUMP_MEASURE_SPECULATION': '1'},
                                           {'FLIPJUMP_MEASURE_SPECULATION': '1', 'FLIPJUMP_NO_FLAT': '1'},
                                           {'FLIPJUMP_NO_FLAT': '1'}, {}]),
            'last_ops': rng.choice([None, None, 5])}


def run_bigline(case):
    from flipjump.interpreter import fjm_run
    path = enginesim.image_path()
    C.write_image(case, path)
    exp, m = C.run_model(case, last_ops=None, probe_mode='off', max_ops=case['n_ops'] + 10, trace_limit=0)
    cfg = {'engine': 'native', 'env': case['env'], 'last_ops': case['last_ops']}
    obs, dev = C.run_engine(case, cfg, path, probe_mode='off')
    v = []
    if exp['outcome'][0] == 'term' and (obs['outcome'] != exp['outcome'] or obs['ops'] != exp['ops']):
        v.append({'clause': 'termination', 'config': cfg, 'config_name': enginesim.cfg_name(cfg),
                  'expected': C._j([exp['outcome'], exp['ops']]), 'observed': C._j([obs['outcome'], obs['ops']])})
    return v, obs['ops'] or 0


def gen(rng, index, tier):
    if index % 150 == 77:
        return gen_bigline(rng)
    r = index % 10
    if r in (0, 1, 2):
        case = C07.gen(rng, index, tier)
        if case is None:
            return None
        case['kind'] = 'swarm'
        case['configs'] = [c for c in case['configs'] if c['engine'] == 'native']
        return case
    if r == 3:
        case = C07.gen(rng, index, tier)
        if case is None:
            return None
        case['kind'] = 'alloc'
        natives = [c for c in case['configs'] if c['engine'] == 'native']
        case['configs'] = natives[:2]
        return case
    if r == 4:
        for _ in range(6):
            case, meta = G.gen_case(rng, 'c11')
            case['tags'] = meta['tags']
            m, obs = enginesim.pre_run(rng, case)
            if m is None:
                continue
            calls = [e for e in obs['log'] if e[0] in ('w', 'r')]
            if calls:
                break
        else:
            return None
        c = rng.randrange(len(calls))
        kinds = ['io', 'foreign', 'kbd', 'baseexc', 'value'] + (['badbool', 'truthy', 'eof'] if calls[c][0] == 'r' else [])
        case['kind'] = 'fault'
        case['fault'] = {'kind': rng.choice(kinds), 'at': c, 'where': 'call'}
        case['configs'] = [{'engine': 'native', 'last_ops': rng.choice([None, 2])},
                           {'engine': 'native', 'env': {'FLIPJUMP_NO_FLAT': '1'}, 'last_ops': rng.choice([None, 2])},
                           {'engine': 'native', 'env': {'FLIPJUMP_MEASURE_SPECULATION': '1'}}]
        return case
    if r in (5, 6):
        return gen_raw(rng)
    if r in (7, 8):
        return gen_memapi(rng)
    return gen_devmem(rng, tier)


# ------------------------------------------------------------------------------------------ runners

_guard = {'on': False}


def _short_handler(signum, frame):
    if _guard['on']:
        _guard['on'] = False
        raise _ShortStop()


def _short_timer(seconds):
    """arm a short wall timer that stops an endless (but legitimate) generated program. the handler only raises
    while the guard is on; callers wrap the guarded region in an outer `except _ShortStop`."""
    old = signal.signal(signal.SIGALRM, _short_handler)
    remaining = signal.setitimer(signal.ITIMER_REAL, seconds)
    _guard['on'] = True
    return old, remaining


def _restore_timer(old, remaining):
    _guard['on'] = False
    signal.setitimer(signal.ITIMER_REAL, 0)
    signal.signal(signal.SIGALRM, old)
    if remaining and remaining[0] > 0:
        signal.setitimer(signal.ITIMER_REAL, max(0.5, remaining[0]))


def raw_bytes(case):
    w = case['w']
    out = struct.pack('<HHQQ', 0x4A46, w, case['version'], len(case['segs']))
    if case['version'] != 0:
        out += struct.pack('<QL', 0, 0)
    for s in case['segs']:
        out += struct.pack('<QQQQ', *s)
    fmt = {8: 'B', 16: 'H', 32: 'L', 64: 'Q'}[w]
    out += struct.pack(f'<{len(case["data"])}{fmt}', *case['data'])
    return out


def run_raw(case):
    from flipjump.interpreter import fjm_run
    from flipjump.utils.exceptions import FlipJumpException
    path = enginesim.image_path()
    path.write_bytes(raw_bytes(case))
    dev = C.SimDevice({'input_bits': case['input_bits'], 'script': {}, 'fault': None, 'probe_words': []}, 'off')
    C.set_engine_env({'engine': 'native', 'env': case['env']})
    outcome = None
    ops = 0
    old, rem = _short_timer(0.4)
    try:
        try:
            st = fjm_run.run(path, io_device=dev, last_ops_debugging_list_length=case['last_ops'],
                             flat_max_words=case['knob'])
            outcome = 'term:' + str(st.termination_cause)
            ops = st.op_counter
        except FlipJumpException as e:
            outcome = 'raise:' + type(e).__name__
        finally:
            _restore_timer(old, rem)
    except _ShortStop:
        _restore_timer(old, rem)
        outcome = 'stopped-by-timer'
    return outcome, ops


class _Cb:
    def __init__(self, mode, bits):
        self.mode = mode
        self.bits = list(bits)
        self.n = 0

    def read_bit(self):
        self.n += 1
        if self.mode == 'raise':
            raise ValueError('cb')
        if self.mode == 'badbool':
            return C.BadBool(ValueError('bb'))
        if self.mode == 'none':
            return None
        if self.mode == 'eof' or not self.bits:
            from flipjump.utils.exceptions import IOReadOnEOF
            raise IOReadOnEOF('eof')
        return bool(self.bits.pop())

    def write_bit(self, bit):
        self.n += 1
        if self.mode == 'raise' and self.n > 2:
            raise ValueError('cb')
        return None


def run_memapi(case):
    from flipjump.interpreter import fjm_run
    from flipjump.utils.exceptions import IOReadOnEOF
    core_mod = fjm_run._fjcore
    mem = None
    outcomes = []
    ops_total = 0
    for op in case['ops']:
        kind = op[0]
        try:
            if kind == 'new':
                mem = core_mod.Memory(op[1], garbage_stop=bool(op[2]), flat_max_words=op[3])
                outcomes.append('new')
            elif mem is None:
                continue
            elif kind == 'add_segment':
                mem.add_segment(op[1], op[2])
                outcomes.append('seg')
            elif kind == 'set_word':
                mem.set_word(op[1], op[2])
                outcomes.append('sw')
            elif kind == 'get_word':
                v = mem.get_word(op[1])
                assert 0 <= v <= U64
                outcomes.append('gw')
            elif kind == 'set_words':
                mem.set_words(op[1], op[2])
                outcomes.append('sws')
            elif kind == 'props':
                (mem.last_run_op_count, mem.last_run_paused_seconds, mem.allocated_bytes, mem.storage_mode,
                 mem.speculation_stats)
                for attr in ('last_run_last_ops',):
                    if hasattr(mem, attr):
                        v1 = list(getattr(mem, attr))
                        v2 = list(getattr(mem, attr))
                        if v1 != v2:
                            return outcomes, ops_total, {'clause': 'api-result', 'expected': v1, 'observed': v2}
                outcomes.append('props')
            elif kind == 'reinit':
                mem.__init__(op[1], flat_max_words=op[2])
                outcomes.append('reinit')
            elif kind == 'run':
                cb = _Cb(op[3], [1, 0, 1, 1, 0, 0, 1, 0])
                C.set_engine_env({'engine': 'native', 'env': op[4]})
                rb, wb = cb.read_bit, cb.write_bit
                rc0 = (sys.getrefcount(cb), sys.getrefcount(rb), sys.getrefcount(wb))
                old, rem = _short_timer(0.25)
                try:
                    try:
                        res = mem.run(rb, wb, IOReadOnEOF, last_ops_length=op[2], start_ip=op[1])
                        outcomes.append('run:%d' % res[0])
                        ops_total += res[1]
                    finally:
                        _restore_timer(old, rem)
                except _ShortStop:
                    _restore_timer(old, rem)
                    outcomes.append('run:stopped')
                rc1 = (sys.getrefcount(cb), sys.getrefcount(rb), sys.getrefcount(wb))
                if rc0 != rc1:
                    return outcomes, ops_total, {'clause': 'refcount', 'expected': list(rc0), 'observed': list(rc1)}
        except (ValueError, TypeError, OverflowError, MemoryError, IOReadOnEOF, AssertionError) as e:
            if isinstance(e, AssertionError):
                return outcomes, ops_total, {'clause': 'api-result', 'expected': 'get_word in [0, 2^64)', 'observed': repr(e)}
            outcomes.append(kind + ':' + type(e).__name__)
    return outcomes, ops_total, None


def run_alloc(case):
    """fail the k-th allocation of each configuration's run, for every k of the fault-free run"""
    path = enginesim.image_path()
    C.write_image(case, path)
    violations = []
    fired = conf = 0
    steps = 0
    for cfg in case['configs']:
        exp, m = C.run_model(case, last_ops=cfg.get('last_ops'), probe_mode='off')
        if exp['outcome'][0] == 'cap':
            continue
        _shim.verif_alloc_arm(-1)
        obs0, _ = C.run_engine(case, cfg, path, probe_mode='off')
        n_alloc = _shim.verif_alloc_count()
        armed_case = dict(case, probe_words=[])
        for k in range(min(n_alloc, 40)):
            _shim.verif_alloc_arm(k)
            obs, dev = C.run_engine(armed_case, cfg, path, probe_mode='off')
            failed = _shim.verif_alloc_failed()
            _shim.verif_alloc_arm(-1)
            if dev.dm is not None:     # after the failure the same Memory object must still answer reads
                obs['final'] = tuple(dev.dm.read_word(a) for a in (case.get('probe_words') or []))
            conf += 1
            fired += 1 if failed else 0
            steps += obs['ops'] or 0
            out = obs['outcome']
            ok = False
            if out[0] == 'raise' and out[3] == 'MemoryError':
                ok = True           # wrapped as the library's runtime error with MemoryError as the cause
            elif out[0] == 'term':
                # the allocation failure was absorbed (flat array -> paged fallback): the result must be the model's
                ok = C.compare(exp, obs, FIELDS) is None
            if not ok:
                violations.append({'clause': 'alloc-failure-outcome', 'config': cfg,
                                   'config_name': enginesim.cfg_name(cfg),
                                   'expected': 'MemoryError (wrapped) or the fault-free result', 'observed': C._j(out),
                                   'fault': {'kind': 'alloc', 'k': k}})
                break
    return violations, conf, fired, steps


def run(case):
    kind = case.get('kind')
    faults = {}
    states = set()
    violations = []
    steps = 0
    nontrivial = False
    probes = {'workload_' + str(kind): 1}
    if kind in ('swarm', 'fault', 'devmem'):
        fields = FIELDS if kind != 'devmem' else ()
        if kind == 'devmem':
            # only safety is judged: out-of-segment device writes are outside C19's statement
            path = enginesim.image_path()
            C.write_image(case, path)
            for cfg in case['configs']:
                # the device's writes turn the program into another, possibly endless, program: stop it by wall time
                try:
                    with kernel.short_timer(0.4):
                        obs, dev = C.run_engine(case, cfg, path, probe_mode='off')
                except kernel.ShortStop:
                    states.add(f"devmem|{enginesim.cfg_class(cfg)}|stopped-by-timer")
                    continue
                steps += obs['ops'] or 0
                states.add(f"devmem|{enginesim.cfg_class(cfg)}|{obs['outcome'][0]}:{obs['outcome'][1]}")
            nontrivial = True
            probes['devmem_accesses'] = sum(len(v) for v in case['script'].values())
        else:
            violations, info = enginesim.evaluate(case, fields)
            steps = info['steps']
            exp = next(iter(info['expected'].values()))
            nontrivial = (exp.get('model_ops') or 0) >= 1
            for sm in info['storage_modes']:
                states.add(f'{kind}|{sm}|{exp["outcome"][1]}')
            if kind == 'fault':
                k = 'device:' + case['fault']['kind']
                faults[k] = [len(case['configs']), len(case['configs']) if any(e[0] == 'fault' for e in exp['log']) else 0]
    elif kind == 'alloc':
        violations, conf, fired, steps = run_alloc(case)
        faults['alloc-failure'] = [conf, fired]
        nontrivial = fired > 0
        states.add(f'alloc|{conf > 0}')
    elif kind == 'bigline':
        violations, steps = run_bigline(case)
        states.add('bigline|' + ','.join(sorted(case['env'])))
        nontrivial = True
        if steps > 32768:
            probes['bigline_over_32768_ops'] = 1
            if case['env'].get('FLIPJUMP_MEASURE_SPECULATION') == '1' and not case['last_ops']:
                probes['bigline_measured_table_growth'] = 1
    elif kind == 'raw':
        outcome, steps = run_raw(case)
        states.add(f'raw|{outcome}')
        nontrivial = True
        probes['raw_' + outcome.split(':')[0]] = 1
    elif kind == 'memapi':
        outcomes, steps, v = run_memapi(case)
        for o in outcomes:
            states.add('memapi|' + o)
        if v:
            v.update({'config': None, 'config_name': 'memapi'})
            violations.append(v)
        nontrivial = len(outcomes) > 2
        probes['memapi_ops'] = len(outcomes)
    return {'violations': violations, 'probes': probes, 'faults': faults, 'states': states, 'steps': steps,
            'nontrivial': nontrivial, 'digest': kernel.digest_of([case, [v['clause'] for v in violations], sorted(states)])}


def minimise(case, violation):
    if case.get('kind') in ('swarm', 'fault'):
        return enginesim.minimise(case, violation, FIELDS)
    return case, violation


def signature(case, violation):
    kind = case.get('kind') if case else None
    if kind in ('swarm', 'fault'):
        sig = enginesim.signature(case, violation)
    else:
        sig = {'clause': violation.get('clause'), 'config_class': enginesim.cfg_class(violation.get('config'))
               if violation.get('config') else None}
    sig['workload'] = kind
    return sig


def adequacy(tier, agg):
    return B.adequacy(tier, agg, ['workload_swarm', 'workload_fault', 'workload_raw', 'workload_memapi', 'workload_devmem',
                                  'workload_alloc', 'workload_bigline', 'bigline_over_32768_ops',
                                  'bigline_measured_table_growth', 'devmem_accesses'], min_cases=2000)
