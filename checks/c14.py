"""C14 (crash-consistency clause only) - a failed assembly never leaves behind an output file that loads as a
program (DESIGN.md 5.6)

storagesim driving the real assemble(): for each sampled (program, width, version, debug file on/off, pre-existing
output or not, output path plain or a symbolic link) the fault-free call is recorded on the simulated disk, then EVERY file operation of it fails in turn
(OSError of several errnos, short write + ENOSPC), the process 'dies' after every byte of the .fjm, and an interrupt
becomes pending at seeded bytecode instructions of the create-binary stage.  The other two clauses of C14 (specific
exception for every source text, never hangs) quantify over inputs only and are NOT claimed.
"""
import contextlib
import copy
import errno
import os
import sys
import tempfile
from pathlib import Path

from sim import kernel, simfs, build

ID = 'C14'
LEVEL = 'fault_enumeration'
RULE = ('per sampled assemble() call the fault plan is enumerated: OSError (ENOSPC/EIO/EACCES) at every operation index '
        'of the recorded fault-free call (open/write/close/replace/unlink on .fjm and .fjd), a short write at every write, a '
        'SIGINT that arrived while each of these operations was inside the kernel (pending when the call returns), a '
        'crash after every byte of the .fjm, pending SIGINT at EVERY bytecode instruction of the create-binary stage; '
        'the real `fj --asm` command as a subprocess whose progress-line reader goes away (from the start / during the create-binary stage); plus one failing program per source-error class. evaluations = faulted assemble() calls; non-trivial: the call '
        'raised after the output file had been opened; distinct = (program, options, fault plan)')
STATE_MEASURE = 'distinct (fault kind, file the fault hit, operation kind, state of the output afterwards) tuples'
ASSUMPTIONS = ['only the clause "a failed assembly never leaves behind an output file that loads as a program" is '
               'claimed; "loads" means Reader(path) + assert_runnable() succeed', 'every write that returned is durable '
               '(the code under test never fsyncs, so this is the most favourable disk)',
               'exception types under injected environment faults are recorded, not judged']
COMPONENTS = {'real': ['flipjump.assemble (quickstart) -> assembler.assemble -> Writer.write_to_file -> '
                       'save_debugging_labels', 'fj_parser / preprocessor (sources are real files)', 'Reader + assert_runnable'],
              'stub': ['fault-injecting open() around REAL output files (sim/simfs.py FaultFS, name injection of `open`; stat, exists and unlink are the real file system)',
                       'the interrupt source (sim/_verifsig.c)'],
              'oracle': ['state of the simulated disk after the failed call']}
TIME_NOTE = 'the unit of simulated time is one file operation on the simulated disk'

FS = None
SRC_DIR = None
_sig = None

PROGRAMS = {
    'tiny_nostl': (False, ';0\n;$ - dw\n'.replace('dw', '2*w')),
    'loop_nostl': (False, 'start:\n  ;next\nnext:\n  start+1;end\nend:\n  ;end\n'),
    'segments_nostl': (False, ';a\nsegment 0x1000\na:\n  ;b\nreserve 4*w\nb:\n  ;b\n'),
    'hello_stl': (True, 'stl.startup\nstl.output "Hi"\nstl.loop\n'),
    'vars_stl': (True, 'stl.startup\nhex.xor x, y\nhex.print_as_digit x, 0\nstl.loop\nx: hex.hex 3\ny: hex.hex 5\n'),
}
FAILING = {
    'syntax': (False, ';;\n;\n'),
    'unknown_macro': (False, 'foo 1\n;0\n'),
    'dup_label': (False, 'a:\na:\n;0\n'),
    'unresolved': (False, ';nolabel\n'),
    'overlap': (False, ';0\nsegment 0\n;0\n'),
    'lexing': (False, ';0 `\n'),
    # source errors that surface LATE, inside the writer (a word that does not fit w=16 is only noticed by struct.pack,
    # after the output file was opened): the one way a fault-free failing assembly reaches the output stage
    'late_word': (False, '  ;0\n  ;1<<20\n'),
    'late_wflip': (False, '  ;0\nx:\n  wflip 1<<20, 5\n'),
}


def setup_main():
    build.build_helper('_verifsig')


def setup_worker():
    global FS, SRC_DIR, _sig
    if 'flipjump.interpreter.fjm_run' not in sys.modules:
        build.install_fjcore('plain')
    from sim import case as C
    global OUT, DBG, OUT_DIR
    OUT_DIR = C.scratch_dir() / 'c14out'
    OUT_DIR.mkdir(exist_ok=True)
    OUT, DBG = str(OUT_DIR / 'out.fjm'), str(OUT_DIR / 'out.fjd')
    FS = simfs.FaultFS(OUT_DIR)
    SRC_DIR = C.scratch_dir() / 'src'
    SRC_DIR.mkdir(exist_ok=True)
    for name, (stl, text) in list(PROGRAMS.items()) + list(FAILING.items()):
        (SRC_DIR / f'{name}.fj').write_text(text)
    old_program_bytes()
    from sim import sigint
    _sig = sigint.helper()
    FS.install(set_interrupt=_sig.set_interrupt)
    import flipjump
    from flipjump.fjm import fjm_writer
    from flipjump.utils import functions
    from flipjump.assembler import assembler
    mon = sys.monitoring
    if mon.get_tool(sigint.TOOL) is None:
        mon.use_tool_id(sigint.TOOL, 'verif-sigint')
    mon.register_callback(sigint.TOOL, mon.events.INSTRUCTION, _sig.on_instruction)
    from flipjump.utils import classes
    # the code of the create-binary stage, found by name pattern and not by a fixed list (a refactoring that splits,
    # renames or removes a private helper must not break the harness; a helper that is missed only means that no
    # instruction-precise interrupt lands inside it - the interrupts at file-operation boundaries still do)
    import types

    def reachable(namespace, roots):
        # the functions of one namespace that the roots mention by name, transitively (a poor man's call graph)
        table = {n: f for n, f in vars(namespace).items() if isinstance(f, types.FunctionType)}
        todo, seen = [r for r in roots if r in table], []
        while todo:
            n = todo.pop()
            if n in seen:
                continue
            seen.append(n)
            todo += [m for m in table[n].__code__.co_names if m in table and m not in seen]
            for const in table[n].__code__.co_consts:          # nested functions / comprehensions
                if isinstance(const, types.CodeType):
                    todo += [m for m in const.co_names if m in table and m not in seen]
        return [table[n] for n in seen]
    fns = reachable(fjm_writer.Writer, ['write_to_file']) + reachable(functions, ['save_debugging_labels'])
    timer = getattr(classes, 'PrintTimer', None)
    fns += [f for f in (getattr(timer, '__enter__', None), getattr(timer, '__exit__', None))
            if isinstance(f, types.FunctionType)]
    for fn in fns:
        mon.set_local_events(sigint.TOOL, fn.__code__, mon.events.INSTRUCTION)
    _sig.arm(-1)


def config_class(cfg):
    return None


def plan(tier):
    if tier == 'thorough':
        return {'cases': 6000, 'chunk': 10, 'budget_s': 1200, 'case_timeout_s': 300, 'minimise_budget_s': 60}
    return {'cases': 320, 'chunk': 4, 'budget_s': 80, 'case_timeout_s': 300, 'minimise_budget_s': 30}


def run_cli(case):
    """the `fj --asm` command as a real subprocess (unbuffered stdout, as in CI/containers) whose progress lines are
    piped into a reader that goes away: from the start, or during the create-binary stage (made deterministic with a
    named pipe as the debugging file: fj blocks on opening it after it wrote the .fjm and before it prints the
    stage's time). A failed command must not leave a loadable output behind."""
    import select
    import shutil
    import subprocess
    import time
    work = OUT_DIR / 'cli'
    shutil.rmtree(work, ignore_errors=True)
    work.mkdir()
    stl, text = PROGRAMS[case['program']]
    src = work / 'prog.fj'
    src.write_text(text)
    out = work / 'out.fjm'
    fifo = work / 'out.fjd'
    os.mkfifo(fifo)
    cmd = [sys.executable, '-u', '-c', 'from flipjump.flipjump_cli import main; main()', '--asm', '-w', str(case['w']),
           '-v', str(case['version']), '-o', str(out), '-d', str(fifo)] + ([] if stl else ['--no_stl']) + [str(src)]
    env = dict(os.environ)
    env.pop('LD_PRELOAD', None)
    fj = subprocess.Popen(cmd, env=env, stdin=subprocess.DEVNULL, stdout=subprocess.PIPE, stderr=subprocess.DEVNULL,
                          bufsize=0, cwd=str(work))
    fired = False
    try:
        fd = fj.stdout.fileno()
        data = b''
        deadline = time.time() + 60
        if case['when'] == 'during-create-binary':
            while b'create binary:' not in data and time.time() < deadline:
                ready, _, _ = select.select([fd], [], [], 1.0)
                if ready:
                    chunk = os.read(fd, 4096)
                    if not chunk:
                        break
                    data += chunk
        fj.stdout.close()          # the reader of the progress lines goes away
        fired = True
        # let the command get on: open the other end of the debugging-file pipe and drain it
        ffd = os.open(fifo, os.O_RDONLY | os.O_NONBLOCK)
        t_end = time.time() + 60
        while fj.poll() is None and time.time() < t_end:
            try:
                os.read(ffd, 65536)
            except BlockingIOError:
                pass
            time.sleep(0.01)
        os.close(ffd)
        rc = fj.wait(timeout=30)
    finally:
        if fj.poll() is None:
            fj.kill()
            fj.wait()
    state = 'absent'
    if out.exists():
        state = 'loadable' if loads(out) else ('empty' if not out.read_bytes() else 'not-loadable')
    violations = []
    if rc != 0 and state == 'loadable':
        how = f'killed by signal {-rc}' if rc < 0 else f'exit status {rc}'
        violations.append(_v('failed-assembly-left-loadable-file', {'kind': 'cli-stdout-reader-gone', 'when': case['when']},
                             how, state))
    shutil.rmtree(work, ignore_errors=True)
    return {'violations': violations, 'probes': {'cli_runs': 1, 'cli_failed_runs': 1 if rc != 0 else 0}, 'faults':
            {'cli-stdout-reader-gone:' + case['when']: [1, 1 if (fired and rc != 0) else 0]},
            'states': {f"cli|{case['when']}|rc{'0' if rc == 0 else ('sig' if rc < 0 else 'err')}|{state}"}, 'steps': 1,
            'nontrivial': rc != 0, 'digest': kernel.digest_of([case, state, rc != 0])}


def gen(rng, index, tier):
    if index % 16 == 5:
        name = rng.choice(sorted(PROGRAMS))
        stl = PROGRAMS[name][0]
        return {'kind': 'cli', 'program': name, 'w': rng.choice([32, 64]) if stl else rng.choice([16, 32, 64]),
                'version': rng.choice([0, 1, 2, 3]), 'when': rng.choice(['during-create-binary', 'during-create-binary',
                                                                          'from-the-start'])}
    if index % 10 == 9:
        name = rng.choice(sorted(FAILING))
        return {'program': name, 'failing': True, 'w': 16 if name.startswith('late_') else rng.choice([16, 32, 64]),
                'version': rng.choice([0, 1, 2, 3]),
                'debug': rng.random() < 0.5, 'preexisting': rng.random() < 0.5, 'seed': rng.getrandbits(32)}
    name = rng.choice(sorted(PROGRAMS))
    stl = PROGRAMS[name][0]
    w = rng.choice([32, 64]) if stl else rng.choice([16, 32, 64])
    return {'program': name, 'failing': False, 'w': w, 'version': rng.choice([0, 1, 2, 3]),
            'debug': rng.random() < 0.7, 'preexisting': rng.random() < 0.5, 'seed': rng.getrandbits(32),
            'out_symlink': rng.random() < 0.25,
            'dbg_kind': rng.choice(['missing_dir', 'is_dir', 'too_long', 'under_a_file']) if rng.random() < 0.15 else None}


OUT = DBG = OUT_DIR = None
OLD_PROGRAM = None


def old_program_bytes():
    """a valid, different program that may already sit at the output path"""
    global OLD_PROGRAM
    if OLD_PROGRAM is None:
        from flipjump.fjm.fjm_writer import Writer
        from flipjump.fjm.fjm_consts import FJMVersion
        FS.plan = None
        old = OUT_DIR / 'old.fjm'
        wr = Writer(old, 32, FJMVersion.NormalVersion)
        wr.add_simple_segment_with_data(0, [77, 0, 0, 0])
        wr.write_to_file()
        OLD_PROGRAM = old.read_bytes()
    return OLD_PROGRAM


def loads(path):
    from flipjump.fjm.fjm_reader import Reader
    from flipjump.utils.exceptions import FlipJumpException
    saved = FS.plan
    FS.plan = None
    try:
        r = Reader(path)
        r.assert_runnable()
        return True
    except FlipJumpException:
        return False
    finally:
        FS.plan = saved


class FaultyStdout:
    """stand-in for sys.stdout whose k-th write fails with EPIPE (the reader of the progress messages went away)"""

    def __init__(self, fail_at):
        self.fail_at = fail_at
        self.writes = 0
        self.fired = False

    def write(self, text):
        n = self.writes
        self.writes += 1
        if n >= self.fail_at:        # once the reader of the stream is gone, every later write fails too
            self.fired = True
            raise BrokenPipeError(errno.EPIPE, 'Broken pipe')
        return len(text)

    def flush(self):
        pass


def call_assemble(case, fault, instr_n=-1, stdout_fail_at=None):
    """one assemble() call on the simulated disk under the fault plan. returns (raised?, exception name, fired?)"""
    import flipjump
    from flipjump.fjm.fjm_consts import FJMVersion
    stl, _ = (FAILING if case['failing'] else PROGRAMS)[case['program']]
    real_unlink = getattr(os.unlink, '_verif_real', os.unlink)      # the harness's own clean-up is not an operation
    target = OUT_DIR / 'builds' / 'prog-7.fjm'
    for p in (OUT, DBG, target, OUT + '.tmp', DBG + '.tmp'):
        try:
            real_unlink(p)
        except OSError:
            pass
    FS.reset_log()
    before = None
    if case.get('out_symlink'):
        # the requested output path is a symbolic link to a regular file (e.g. latest.fjm -> builds/prog-7.fjm)
        target.parent.mkdir(exist_ok=True)
        target.write_bytes(old_program_bytes() if case['preexisting'] else b'')
        os.symlink(target, OUT)
        before = target.read_bytes() if case['preexisting'] else None
    elif case['preexisting']:
        before = old_program_bytes()
        Path(OUT).write_bytes(before)
    FS.plan = fault
    raised = None
    returned = False
    sigfired = 0
    srcs = [SRC_DIR / f"{case['program']}.fj"]
    ver = FJMVersion(case['version'])
    dbg = DBG if case['debug'] else None
    kind = case.get('dbg_kind')
    if kind:
        # a debugging-file path that can never be written - a static condition of the environment, no injected fault
        import shutil as _sh
        _sh.rmtree(OUT_DIR / 'adir', ignore_errors=True)
        if kind == 'missing_dir':
            dbg = str(OUT_DIR / 'no-such-dir' / 'out.fjd')
        elif kind == 'is_dir':
            (OUT_DIR / 'adir').mkdir(exist_ok=True)
            dbg = str(OUT_DIR / 'adir')
        elif kind == 'too_long':
            dbg = str(OUT_DIR / ('x' * 300 + '.fjd'))           # every system call on it fails with ENAMETOOLONG
        elif kind == 'under_a_file':
            (OUT_DIR / 'afile').write_bytes(b'x')
            dbg = str(OUT_DIR / 'afile' / 'out.fjd')             # ENOTDIR
    _sig.arm(instr_n)
    try:
        try:
            if stdout_fail_at is not None:
                fake = FaultyStdout(stdout_fail_at)
                with contextlib.redirect_stdout(fake):
                    try:
                        flipjump.assemble(srcs, OUT, memory_width=case['w'], use_stl=stl, fjm_version=ver,
                                          print_time=True, debugging_file_path=dbg)
                        returned = True
                    finally:
                        call_assemble.stdout_writes = fake.writes
                        call_assemble.stdout_fired = fake.fired
            else:
                flipjump.assemble(srcs, OUT, memory_width=case['w'], use_stl=stl, fjm_version=ver, print_time=False,
                                  debugging_file_path=dbg)
                returned = True
        finally:
            # an interrupt that surfaces only after assemble() has returned hit the harness, not the assembly
            cnt, sigfired = _sig.status()
            call_assemble.instr_events = cnt
            _sig.arm(-1)
            kernel.drain_interrupt()
    except kernel.WatchdogTimeout:
        _sig.arm(-1)
        raise
    except BaseException as e:  # noqa
        if not returned:
            raised = type(e).__name__
        _sig.arm(-1)
        kernel.drain_interrupt()
    fired = FS.fired or bool(sigfired) or (fault is not None and fault.get('kind') == 'crash' and raised == 'SimCrash')
    if stdout_fail_at is not None:
        fired = getattr(call_assemble, 'stdout_fired', False)
    FS.plan = None
    return raised, fired, before


def judge(case, raised, before):
    """state of the output path after the call"""
    if not os.path.exists(OUT):          # (follows a symbolic link: a dangling link is 'absent')
        return 'absent'
    cur = Path(OUT).read_bytes()
    if not cur:
        return 'empty'
    if before is not None and cur == before:
        return 'unchanged'
    return 'loadable' if loads(OUT) else 'not-loadable'


def run(case):
    if case.get('kind') == 'cli':
        return run_cli(case)
    import contextlib
    import io as _io
    violations = []
    faults = {}
    states = set()
    evals = 0
    nontrivial = 0
    sink = _io.StringIO()
    with contextlib.redirect_stdout(sink):
        # fault-free recording
        raised0, _, before = call_assemble(case, None)
        ops0 = list(FS.ops)
        out_bytes = Path(OUT).read_bytes() if os.path.exists(OUT) else b''
        state0 = judge(case, raised0, before)
        if case['failing']:
            evals += 1
            if raised0 is None:
                pass        # the 'failing' program assembled after all: nothing to judge
            elif state0 == 'loadable':
                violations.append(_v('failed-assembly-left-loadable-file', {'kind': 'source-error'}, raised0, state0))
            states.add(f"source-error|{case['program']}|{state0}")
            cur = faults.setdefault('source-error:' + case['program'], [0, 0])
            cur[0] += 1
            cur[1] += 1 if raised0 else 0
        elif case.get('dbg_kind'):
            evals += 1
            nontrivial += 1 if raised0 else 0
            if raised0 is not None and state0 == 'loadable':
                violations.append(_v('failed-assembly-left-loadable-file', {'kind': 'unwritable-debug-path:' + case['dbg_kind']},
                                     raised0, state0))
            states.add(f"unwritable-debug-path|{case['dbg_kind']}|{'raised' if raised0 else 'returned'}|{state0}")
            cur = faults.setdefault('unwritable-debug-path:' + case['dbg_kind'], [0, 0])
            cur[0] += 1
            cur[1] += 1 if raised0 else 0
        elif raised0 is not None or state0 != 'loadable':
            return {'violations': [], 'probes': {'corpus_program_does_not_assemble': 1}, 'faults': {}, 'states': [],
                    'steps': 0, 'nontrivial': False, 'digest': kernel.digest_of([case, 'corpus'])}
        else:
            plans = []
            for idx, kind, path, arg in ops0:
                for en in (errno.ENOSPC, errno.EIO, errno.EACCES):
                    plans.append({'kind': 'oserror', 'op': idx, 'errno': en})
                plans.append({'kind': 'sigint_after', 'op': idx})     # SIGINT arrived while this call was in the kernel
                if kind == 'write':
                    plans.append({'kind': 'short', 'op': idx, 'bytes': max(0, arg // 2)})
                    plans.append({'kind': 'short', 'op': idx, 'bytes': 0})
            nb = len(out_bytes)
            import random
            rng = random.Random(case['seed'])
            cuts = range(nb) if nb <= 600 else sorted(set(list(range(80)) + [rng.randrange(nb) for _ in range(300)]
                                                          + list(range(nb - 20, nb))))
            for b in cuts:
                plans.append({'kind': 'crash', 'path': OUT, 'byte': b})
            # how many monitored instructions does the create-binary stage execute? (dry run, never fires)
            call_assemble(case, None, instr_n=10 ** 9)
            n_instr = getattr(call_assemble, 'instr_events', 0)
            if n_instr <= 400:
                sig_ns = list(range(1, n_instr + 2))          # EVERY instruction of the stage
            else:
                sig_ns = sorted(set(list(range(1, 80)) + list(range(n_instr - 150, n_instr + 2)) +
                                    [rng.randrange(1, n_instr) for _ in range(150)]))
            for plan_ in plans:
                raised, fired, before = call_assemble(case, plan_)
                evals += 1
                k = plan_['kind'] + ('' if plan_['kind'] == 'crash' else ':' + _op_kind(ops0, plan_['op']))
                cur = faults.setdefault(k, [0, 0])
                cur[0] += 1
                cur[1] += 1 if fired else 0
                st = judge(case, raised, before)
                states.add(f"{k}|{'raised' if raised else 'returned'}|{st}")
                if raised is not None:
                    nontrivial += 1
                    if st == 'loadable':
                        violations.append(_v('failed-assembly-left-loadable-file', plan_, raised, st,
                                             _op_desc(ops0, plan_)))
                        if len(violations) >= 4:
                            break
            if len(violations) < 4:
                # the progress messages' stream fails at its k-th write (print_time=True, the default of the API)
                call_assemble(case, None, stdout_fail_at=10 ** 9)
                nwrites = getattr(call_assemble, 'stdout_writes', 0)
                for k in range(nwrites):
                    raised, fired, before = call_assemble(case, None, stdout_fail_at=k)
                    evals += 1
                    cur = faults.setdefault('stdout-epipe@write', [0, 0])
                    cur[0] += 1
                    cur[1] += 1 if fired else 0
                    st = judge(case, raised, before)
                    states.add(f"stdout|{'raised' if raised else 'returned'}|{st}")
                    if raised is not None:
                        nontrivial += 1
                        if st == 'loadable':
                            violations.append(_v('failed-assembly-left-loadable-file',
                                                 {'kind': 'stdout-epipe', 'write': k}, raised, st))
                            break
            if len(violations) < 4:
                for n in sig_ns:
                    raised, fired, before = call_assemble(case, None, instr_n=n)
                    evals += 1
                    cur = faults.setdefault('sigint@instr:create-binary', [0, 0])
                    cur[0] += 1
                    cur[1] += 1 if fired else 0
                    st = judge(case, raised, before)
                    states.add(f"sigint|{'raised' if raised else 'returned'}|{st}")
                    if raised is not None:
                        nontrivial += 1
                        if st == 'loadable':
                            violations.append(_v('failed-assembly-left-loadable-file',
                                                 {'kind': 'sigint', 'instr_n': n}, raised, st))
                            break
    return {'violations': violations[:4], 'probes': {'faulted_calls': evals, 'program_' + case['program']: 1},
            'faults': faults, 'states': states, 'steps': evals, 'nontrivial': nontrivial > 0,
            'digest': kernel.digest_of([case, [[v['clause'], v['fault']] for v in violations], sorted(states)])}


def _op_kind(ops0, idx):
    for i, kind, path, arg in ops0:
        if i == idx:
            return kind.split(':')[0] + ('.fjd' if path.endswith('.fjd') else '.fjm')
    return '?'


def _op_desc(ops0, plan_):
    if 'op' not in plan_:
        return None
    for i, kind, path, arg in ops0:
        if i == plan_['op']:
            return f'{kind} {path}'
    return None


def _v(clause, fault, raised, state, where=None):
    return {'clause': clause, 'config': None, 'config_name': str(fault), 'fault': fault, 'where': where,
            'expected': 'output absent, unchanged, or not loadable after a failed assemble()',
            'observed': f'assemble() raised {raised}; output is {state}'}


def minimise(case, violation):
    return case, violation


def signature(case, violation):
    w = violation.get('where') or ''
    fk = (violation.get('fault') or {}).get('kind')
    hit = 'fjd' if w.endswith('.fjd') else ('fjm' if w.endswith('.fjm') else None)
    return {'clause': violation.get('clause'), 'config_class': None, 'fault_kind': fk, 'file_hit': hit,
            'class_key': [violation.get('clause'), fk, hit]}
