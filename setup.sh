#!/bin/sh
# MANIFEST.setup_cmd: build the private native-engine variants and the C helpers from /repo's working tree,
# then prove the simulator itself (model validity, determinism). Offline; nothing is fetched.
set -e
cd "$(dirname "$0")"
export PYTHONHASHSEED=0
PY=/venv/bin/python
$PY -c "import hypothesis" 2>/dev/null || /venv/bin/pip install -q --no-index --find-links /opt/veriftools/wheels hypothesis || true
timeout 600 $PY sim/build.py plain asanshim
timeout 300 $PY -c "import sys; sys.path.insert(0, \".\"); from sim import build; build.build_helper(\"_verifsig\")"
timeout 900 $PY sim/selftest.py model
if [ "${VERIF_SKIP_DETERMINISM:-0}" != "1" ]; then
  timeout 1800 $PY sim/selftest.py determinism
fi
echo setup ok
