#!/venv/bin/python
"""Entry point of every check:  run_check.py <ID> --tier quick|thorough [--replay file] [--cases N]

exit 0: property held on everything explored (KNOWN-FINDING lines allowed)
exit 1: VIOLATION property=<id> replay=<path>
exit 2: harness error (never a VIOLATION line)
"""
import argparse
import json
import os
import sys
import time
import traceback

VERIF = os.path.dirname(os.path.abspath(__file__))


def _reexec_if_needed(check_id):
    env = dict(os.environ)
    need = False
    if env.get('PYTHONHASHSEED') is None:
        env['PYTHONHASHSEED'] = '0'
        need = True
    if check_id == 'C11' and ('libasan' not in env.get('LD_PRELOAD', '') or env.get('PYTHONMALLOC') != 'malloc'):
        sys.path.insert(0, VERIF)
        from sim import build
        env = build.asan_env(env)
        need = True
    if need:
        os.execve(sys.executable, [sys.executable] + sys.argv, env)


def main():
    ap = argparse.ArgumentParser()
    ap.add_argument('check')
    ap.add_argument('--tier', default=os.environ.get('VERIF_TIER', 'quick'))
    ap.add_argument('--replay')
    ap.add_argument('--cases', type=int)
    ap.add_argument('--workers', type=int)
    ap.add_argument('--replay-child', action='store_true')
    ap.add_argument('--one', type=int, help='run exactly one case index in this process (crash isolation)')
    ap.add_argument('--digest-only', action='store_true', help='print the campaign digest (determinism self-test)')
    args = ap.parse_args()
    check_id = args.check.upper()
    if args.digest_only:
        os.environ['VERIF_KEEP_DIGESTS'] = '1'
    _reexec_if_needed(check_id)
    sys.path.insert(0, VERIF)
    os.chdir(VERIF)
    seed = int(os.environ.get('VERIF_SEED', '0'))
    from sim import kernel
    import importlib
    try:
        check = importlib.import_module(f'checks.{check_id.lower()}')
    except ImportError:
        traceback.print_exc()
        print(f'HARNESS-ERROR no such check {check_id}')
        return 2

    if args.replay and not args.replay_child:
        # the replay runs in a child process so that a crash of the engine (sanitizer abort, segfault) is observed
        import subprocess
        p = subprocess.run([sys.executable, os.path.abspath(__file__), check_id, '--replay', args.replay,
                            '--replay-child'], capture_output=True, text=True, timeout=600)
        sys.stdout.write(p.stdout)
        died = p.returncode < 0 or p.returncode >= 100 or 'ERROR: AddressSanitizer' in p.stderr or 'runtime error:' in p.stderr
        if died:
            print(f'VIOLATION property={check_id} replay={args.replay}')
            print('   clause=process-crash ' + kernel.crash_summary(p.returncode, p.stderr)[:1500])
            return 1
        if p.returncode not in (0, 1):
            sys.stderr.write(p.stderr[-3000:])
        return p.returncode
    if args.replay:
        return replay(check, args.replay)

    if args.one is not None:
        check.setup_main()
        check.setup_worker()
        import signal
        signal.signal(signal.SIGINT, signal.default_int_handler)
        signal.signal(signal.SIGALRM, kernel._alarm)
        case = check.gen(kernel.case_rng(seed, check.ID, args.one), args.one, args.tier)
        res = kernel.run_one(check, case, 120) if case is not None else None
        print('ONE', args.one, 'violations', len((res or {}).get('violations') or []))
        return 0
    print(f'VERIF_SEED={seed} check={check_id} tier={args.tier}', flush=True)
    try:
        check.setup_main()
        agg = kernel.run_campaign(check, args.tier, seed, workers=args.workers, n_cases=args.cases)
    except kernel.HarnessError as e:
        print(f'HARNESS-ERROR {e}')
        return 2
    if args.digest_only:
        print('DIGEST', kernel.digest_of([agg['digests'][k] for k in sorted(agg['digests'])]), agg['evaluations'])
        return 0
    return report(check, args.tier, seed, agg)


def report(check, tier, seed, agg):
    from sim import kernel
    known = kernel.load_known()
    check.setup_worker()
    import signal
    signal.signal(signal.SIGALRM, kernel._alarm)      # (minimisers and re-runs in this process use wall limits)
    new_violations = []
    hang_confirmed = False
    known_hits = {}
    seen_sigs = {}
    new_classes = {}
    budget_t = time.time() + check.plan(tier).get('minimise_budget_s', 120)
    for entry in agg['violations']:
        v = entry['violation']
        case = entry['case']
        if v.get('clause') == 'hang' and case is not None and not hang_confirmed:
            # a wall-clock watchdog can fire because the machine stalled: the verdict needs the case to exceed twice
            # the limit again when it runs alone (once one hang is confirmed the others are believed)
            limit = check.plan(tier).get('case_timeout_s', 20)
            limit = min(2 * limit, limit + 60)
            how, again = kernel.in_child(lambda: kernel.run_one(check, case, limit), limit + 30)
            if how == 'ok' and not any(x.get('clause') == 'hang' for x in again.get('violations') or ()):
                print(f"note: watchdog fired for case {entry['index']} but it finishes when re-run alone - not a hang")
                agg['violation_count'] -= 1
                continue
            hang_confirmed = True
        sig0 = (v.get('clause'), check.config_class(v.get('config')))
        n_same = seen_sigs.get(sig0, 0)
        seen_sigs[sig0] = n_same + 1
        mcase, mv = case, v
        if case is not None and n_same < 3 and time.time() < budget_t and v.get('clause') not in ('process-crash', 'hang'):
            # minimisation re-runs reduced cases on a tree that is known to be defective: it happens in a child process
            # (which may crash or loop) under a wall limit, and costs at worst the minimised form of the replay
            how, res = kernel.in_child(lambda: check.minimise(case, v), check.plan(tier).get('minimise_one_s', 150))
            if how == 'ok' and res:
                mcase, mv = res
            else:
                print(f"note: minimising case {entry['index']} did not finish ({how}) - reporting it unminimised")

        def _sig():
            try:
                return check.signature(mcase, mv) if mcase is not None else {'clause': v.get('clause')}
            except Exception as e:
                return {'clause': v.get('clause'), 'signature_error': repr(e)}
        how, sig = kernel.in_child(_sig, 120)
        if how != 'ok' or not isinstance(sig, dict):
            sig = {'clause': v.get('clause'), 'signature_error': f'signature computation {how}'}
        k = kernel.match_known(check.ID, sig, known)
        if k is not None:
            known_hits.setdefault(k['id'], [k, 0])[1] += 1
            continue
        ckey = tuple(sig['class_key']) if sig.get('class_key') else (sig.get('clause'), sig.get('config_class'), sig.get('fault_kind'))
        new_classes[ckey] = new_classes.get(ckey, 0) + 1
        if new_classes[ckey] > 2 or len(new_violations) >= 16:
            continue
        path = kernel.write_replay(check.ID, seed, entry, mcase, mv, sig)
        new_violations.append((path, mv, sig))
    for kid, (k, n) in sorted(known_hits.items()):
        print(f"KNOWN-FINDING: property={check.ID} {k['id']}: {k['what']} (matched {n} violating runs)")
    for h in agg['harness_errors'][:5]:
        print('HARNESS-ERROR in case', h['index'], ':', str(h['error'])[-800:])
    extra = {'known_findings_matched': {kid: n for kid, (k, n) in known_hits.items()},
             'violating_runs': agg['violation_count'],
             'new_violation_classes': {str(k): n for k, n in new_classes.items()}}
    inadequate = check.adequacy(tier, agg) if hasattr(check, 'adequacy') else []
    extra['adequacy_failures'] = inadequate
    kernel.write_evidence(check, tier, seed, agg, extra, violations=len(new_violations))
    print(f"{check.ID} {tier}: {agg['evaluations']} cases in {agg['wall_s']:.1f}s, "
          f"{len(agg['nontrivial_digests'])} distinct non-trivial, {agg['steps']} simulated steps, "
          f"{agg['violation_count']} violating runs ({len(new_violations)} new), "
          f"{len(agg['harness_errors'])} harness errors")
    for ckey, n in sorted(new_classes.items(), key=str):
        print(f"   new violation class {ckey}: {n} runs")
    if new_violations:
        for path, mv, sig in new_violations:
            print(f"VIOLATION property={check.ID} replay={path}")
            print(f"   clause={mv.get('clause')} config={mv.get('config_name')} expected={str(mv.get('expected'))[:300]} "
                  f"observed={str(mv.get('observed'))[:300]}")
        return 1
    if agg['harness_errors'] and agg['evaluations'] == 0:
        return 2
    if len(agg['harness_errors']) > max(3, agg['evaluations'] // 100):
        print('HARNESS-ERROR too many harness errors')
        return 2
    if inadequate:
        for msg in inadequate:
            print('HARNESS-INADEQUATE', msg)
        return 2
    return 0


def replay(check, path):
    from sim import kernel
    doc = json.loads(open(path).read())
    check.setup_main()
    check.setup_worker()
    case = doc['case']
    res = kernel.run_one(check, case, 120)
    vs = res.get('violations') or []
    print(f"replay {path}: seed={doc.get('seed')} run={doc.get('run')} recorded clause={doc.get('clause')}")
    if not vs:
        print('REPLAY: no violation reproduced')
        return 0
    known = kernel.load_known()
    rc = 0
    for v in vs:
        sig = check.signature(case, v)
        k = kernel.match_known(check.ID, sig, known)
        same = v.get('clause') == doc.get('clause')
        d = kernel.violation_digest(case, v)
        if k is not None:
            print(f"KNOWN-FINDING: property={check.ID} {k['id']}: {k['what']}")
        else:
            print(f"VIOLATION property={check.ID} replay={path}")
            rc = 1
        print(f"   clause={v.get('clause')} (same as recorded: {same}) config={v.get('config_name')} digest={d} "
              f"(matches recorded digest: {d == doc.get('digest')})")
        print(f"   expected={str(v.get('expected'))[:400]}")
        print(f"   observed={str(v.get('observed'))[:400]}")
    return rc


if __name__ == '__main__':
    try:
        _rc = main()
    except SystemExit:
        raise
    except BaseException:   # noqa  - a crash of the machinery is a harness error (exit 2), never a verdict (exit 1)
        traceback.print_exc()
        print('HARNESS-ERROR uncaught exception in the checking machinery (see the traceback on stderr)')
        _rc = 2
    sys.exit(_rc)
